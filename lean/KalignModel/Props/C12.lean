import KalignModel.Lemmas.Dist
import KalignModel.Lemmas.Upgma
import KalignModel.Model.DistExact
/-!
# C12 (guide-tree part) — all copies of a sequence form one clade of the UPGMA tree

"If the same sequence occurs several times in an input of fewer than 100 sequences and no other sequence is contained
in it or contains it (amino acids of one similarity class counting as equal), all its copies come out as identical
gapped rows."

This module covers the distance matrix and the guide tree: identical sequences are at edit distance 0, every other
admissible partner at edit distance ≥ 1 (`C12_dist_zero_of_equal`, `C12_dist_pos_of_not_substring`), and UPGMA
with such a matrix joins all copies into one clade before any of them meets another sequence (`C12_upgma_clade`,
`C12_copies_form_clade`).

Exact arithmetic: `upgmaExact` (Model/Tree.lean) runs the control flow of the C function `upgma` on integers scaled
by `2^stage`; the executable Float32 model `upgma` and the C code are compared with it by the correspondence op
`upgma_exact` on margin-safe inputs.  `distExact` is `dist + MIN(10000,(len_a+len_b)/2)/10000` in units of 1/10000;
the C code adds the two terms in binary32.  Rounding is therefore *not* covered by the theorems below (the margin
between the two classes of distances is 0.5 - 98 * 0.001, far above binary32 rounding errors of values below 2049).

Sharpening found while proving: `bpm_block` only looks at the first 1024 symbols of the pattern, so "not contained"
has to be read as "the first 1024 symbols of neither sequence occur in the other one"
(for sequences of at most 1024 symbols this is the plain statement).
-/
namespace Kalign

theorem C12_dist_zero_of_equal (s : List Nat) (hs : ∀ c ∈ s, c < 13) : calcDistanceRaw s s = some 0 :=
  dist_zero_of_equal s hs

theorem C12_dist_pos_of_not_substring (a b : List Nat) (ha : ∀ c ∈ a, c < 13) (hb : ∀ c ∈ b, c < 13)
    (h1 : ¬ (b.take 1024 <:+: a)) (h2 : ¬ (a.take 1024 <:+: b)) :
    ∃ d, calcDistanceRaw a b = some d ∧ 1 ≤ d :=
  dist_pos_of_not_substring a b ha hb h1 h2

/-- distance 0 iff the pattern's first 1024 symbols occur in the text (the longer sequence; `b` on equal length) -/
theorem C12_dist_zero_iff (a b : List Nat) (ha : ∀ c ∈ a, c < 13) (hb : ∀ c ∈ b, c < 13) :
    calcDistanceRaw a b = some 0 ↔ (if a.length > b.length then b.take 1024 <:+: a else a.take 1024 <:+: b) :=
  dist_zero_iff a b ha hb

/-- UPGMA clade theorem on exact arithmetic (any unit: `A`, `H`, `delta` and the matrix are integers in that unit) -/
theorem C12_upgma_clade (n : Nat) (c : Nat → Bool) (A H delta : Int) (dm0 : Nat → Nat → Int)
    (hδ : 0 ≤ delta) (hH : (n : Int) * delta < H) (hC : ∃ x, x < n ∧ c x = true)
    (hcc : ∀ x y, x < n → y < n → x ≠ y → c x = true → c y = true → dm0 x y ≤ A)
    (hcr : ∀ x z, x < n → z < n → c x = true → c z = false → A + H ≤ dm0 x z ∧ A + H ≤ dm0 z x) :
    ∃ T, upgmaExact n dm0 delta = some T ∧ ∃ s ∈ T.subtrees, ∀ x, x ∈ s.leaves ↔ (x < n ∧ c x = true) :=
  upgmaExact_clade n c A H delta dm0 hδ hH hC hcc hcr

/-- the instance named in the task: unit 1/2000, `d ≤ α` inside `C`, `≥ α + 1/2` between `C` and the rest,
`+ 0.001` per join, fewer than 100 leaves -/
theorem C12_upgma_clade_100 (n : Nat) (hn : n < 100) (c : Nat → Bool) (alpha : Int) (dm0 : Nat → Nat → Int)
    (hC : ∃ x, x < n ∧ c x = true)
    (hcc : ∀ x y, x < n → y < n → x ≠ y → c x = true → c y = true → dm0 x y ≤ alpha)
    (hcr : ∀ x z, x < n → z < n → c x = true → c z = false → alpha + 1000 ≤ dm0 x z ∧ alpha + 1000 ≤ dm0 z x) :
    ∃ T, upgmaExact n dm0 2 = some T ∧ ∃ s ∈ T.subtrees, ∀ x, x ∈ s.leaves ↔ (x < n ∧ c x = true) :=
  upgmaExact_clade n c alpha 1000 2 dm0 (by omega) (by omega) hC hcc hcr

/-- **C12, guide tree**: fewer than 100 sequences over the 13-letter alphabet; `S` occurs among them; for every other
sequence `T` the first 1024 symbols of `T` do not occur in `S` and those of `S` do not occur in `T`.  Then the exact
UPGMA tree over the exact distance matrix has a subtree whose leaves are exactly the positions of the copies of `S`. -/
theorem C12_copies_form_clade (seqs : List (List Nat)) (S : List Nat) (hn : seqs.length < 100)
    (hsym : ∀ s ∈ seqs, ∀ c ∈ s, c < 13) (hS : S ∈ seqs)
    (hno : ∀ T ∈ seqs, T ≠ S → ¬ (T.take 1024 <:+: S) ∧ ¬ (S.take 1024 <:+: T)) :
    ∃ tree, upgmaExact seqs.length (distExact seqs) 10 = some tree ∧
      ∃ s ∈ tree.subtrees, ∀ x, x ∈ s.leaves ↔ (x < seqs.length ∧ seqs[x]? = some S) := by
  have key := upgmaExact_clade seqs.length (fun i => decide (seqs[i]? = some S))
    ((min 10000 S.length : Nat) : Int) 5000 10 (distExact seqs) (by omega) (by omega)
    (by
      obtain ⟨i, hi, he⟩ := List.getElem_of_mem hS
      exact ⟨i, hi, by simp [List.getElem?_eq_getElem hi, he]⟩)
    (by
      intro x y hx hy _ hcx hcy
      have ex : seqs[x]? = some S := of_decide_eq_true hcx
      have ey : seqs[y]? = some S := of_decide_eq_true hcy
      have hmx : max x y < seqs.length := by omega
      have hmn : min x y < seqs.length := by omega
      have e1 : seqs.getD (max x y) [] = S := by
        rcases Nat.le_total x y with h | h
        · rw [Nat.max_eq_right h]; simp [List.getD_eq_getElem?_getD, ey]
        · rw [Nat.max_eq_left h]; simp [List.getD_eq_getElem?_getD, ex]
      have e2 : seqs.getD (min x y) [] = S := by
        rcases Nat.le_total x y with h | h
        · rw [Nat.min_eq_left h]; simp [List.getD_eq_getElem?_getD, ex]
        · rw [Nat.min_eq_right h]; simp [List.getD_eq_getElem?_getD, ey]
      simp only [distExact, e1, e2, dist_zero_of_equal S (hsym S hS), Option.getD_some]
      omega)
    (by
      intro x z hx hz hcx hcz
      have ex : seqs[x]? = some S := of_decide_eq_true hcx
      have ez : ¬ seqs[z]? = some S := of_decide_eq_false hcz
      have eSx : seqs.getD x [] = S := by simp [List.getD_eq_getElem?_getD, ex]
      have hTm : seqs.getD z [] ∈ seqs := by
        rw [List.getD_eq_getElem?_getD, List.getElem?_eq_getElem hz]; exact List.getElem_mem hz
      have hTne : seqs.getD z [] ≠ S := by
        intro h; apply ez
        rw [List.getD_eq_getElem?_getD, List.getElem?_eq_getElem hz] at h
        rw [List.getElem?_eq_getElem hz]; simpa using h
      obtain ⟨n1, n2⟩ := hno _ hTm hTne
      have hsS := hsym S hS
      have hsT := hsym _ hTm
      -- both orders of the pair give the same bound
      have bound : ∀ a b, (a = S ∧ b = seqs.getD z [] ∨ a = seqs.getD z [] ∧ b = S) →
          ((min 10000 S.length : Nat) : Int) + 5000 ≤
            10000 * (((calcDistanceRaw a b).getD 0 : Nat) : Int) + ((min 10000 ((a.length + b.length) / 2) : Nat) : Int) := by
        intro a b hab
        rcases hab with ⟨rfl, rfl⟩ | ⟨rfl, rfl⟩
        · obtain ⟨d, hd, hd1⟩ := dist_pos_of_not_substring _ _ hsS hsT n1 n2
          rw [hd, Option.getD_some]; omega
        · obtain ⟨d, hd, hd1⟩ := dist_pos_of_not_substring _ _ hsT hsS n2 n1
          rw [hd, Option.getD_some]; omega
      have hpair : ∀ u v, (u = x ∧ v = z ∨ u = z ∧ v = x) →
          ((min 10000 S.length : Nat) : Int) + 5000 ≤ distExact seqs u v := by
        intro u v huv
        simp only [distExact]
        apply bound
        rcases huv with ⟨rfl, rfl⟩ | ⟨rfl, rfl⟩
        · rcases Nat.le_total u v with h | h
          · rw [Nat.max_eq_right h, Nat.min_eq_left h, eSx]; exact Or.inr ⟨rfl, rfl⟩
          · rw [Nat.max_eq_left h, Nat.min_eq_right h, eSx]; exact Or.inl ⟨rfl, rfl⟩
        · rcases Nat.le_total u v with h | h
          · rw [Nat.max_eq_right h, Nat.min_eq_left h, eSx]; exact Or.inl ⟨rfl, rfl⟩
          · rw [Nat.max_eq_left h, Nat.min_eq_right h, eSx]; exact Or.inr ⟨rfl, rfl⟩
      exact ⟨hpair x z (Or.inl ⟨rfl, rfl⟩), hpair z x (Or.inr ⟨rfl, rfl⟩)⟩)
  obtain ⟨T, hT, s, hs, hl⟩ := key
  refine ⟨T, hT, s, hs, fun x => ?_⟩
  rw [hl x]
  simp

/-- non-vacuity of `C12_copies_form_clade`: three sequences, two of them equal -/
example : ∃ tree, upgmaExact 3 (distExact [[0, 1, 2], [3, 3, 1], [0, 1, 2]]) 10 = some tree ∧
    ∃ s ∈ tree.subtrees, ∀ x, x ∈ s.leaves ↔ (x < 3 ∧ [[0, 1, 2], [3, 3, 1], [0, 1, 2]][x]? = some [0, 1, 2]) :=
  C12_copies_form_clade [[0, 1, 2], [3, 3, 1], [0, 1, 2]] [0, 1, 2] (by decide) (by decide) (by decide) (by
    intro T hT hne
    have : T = [3, 3, 1] := by
      simp only [List.mem_cons, List.mem_nil_iff, or_false] at hT
      rcases hT with h | h | h
      · exact absurd h hne
      · exact h
      · exact absurd h hne
    subst this
    constructor <;> decide)

end Kalign
