import KalignModel.Props.PipelineFile
import KalignModel.Props.C04Sniff
/-! aggregator for tools/props/c04.py and c01.py: presentation theorems, whole-program model, and the format-sniffing theorems (C04Sniff) -/
