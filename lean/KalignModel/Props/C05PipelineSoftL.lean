import KalignModel.Props.C05PipelineL
import KalignModel.Props.C05PipelineSoft
/-!
# C05 (pipeline) on the software binary32 carrier: no hypothesis about DP score values

`Props/C05PipelineSoft.lean` proves the Hirschberg monitor for every pair of reachable operands of bounded size (`monHyp_bounded`).
`Props/C05PipelineL.lean` (`kalignRunWithC_casesL`) needs the monitor only for the pairs of operands the recursion really forms, with
their leaf lists (`MonHypL ap codes T.leaves`: the leaves of both operands together are a sublist of the leaves of the guide tree
`T`).  Here the two are put together:

* `monHypL_of_bounds` — `MonHypL ap codes Ls` holds when `Ls` has at most 2¹⁷ entries, every leaf sequence has at most `M` residues
  and `|Ls| · M < 2¹⁹`; no hypothesis about values.
* `kalignRunSoft_never_fault_monitor_of_distinct` — **stages "fault" and "monitor" of the `SoftF32` pipeline**: for inputs with at
  most 2¹⁷ sequences of at most `M` residues, `numseq · M < 2¹⁹`, the run never ends in `.fault` or `.monitor`, provided the leaves of
  the guide tree are pairwise distinct (`GuideTreeDistinct`).  `PipelineMonHyp` — the statement about binary32 values in the meetups —
  is gone; `GuideTreeDistinct` is a structural statement about `bisecting_kmeans` / `upgma` (every sample ends up in exactly one leaf)
  that mentions no DP score.  (`buildTasks_cases` proves the leaf *set* is `{0..n-1}`; the `Perm` version needs a stronger
  `upgma` round invariant than `UInv.leaves` of `Lemmas/NoFaultUpgma.lean`.)
* `kalignRunSoft_never_faults_of_distinct` — all four stages, under `PipelineUpgmaHyp` (guide tree, still on `Float32`) and
  `GuideTreeDistinct`.
-/
namespace Kalign.Pipeline
open Kalign Kalign.Kmeans Kalign.SoftF32

theorem sublist_sum_le {l1 l2 : List Nat} (h : List.Sublist l1 l2) : l1.sum ≤ l2.sum := by
  induction h with
  | slnil => exact Nat.le_refl _
  | cons a _ ih => simp only [List.sum_cons]; omega
  | cons_cons a _ ih => simp only [List.sum_cons]; omega

theorem sum_map_le_length_mul (l : List Nat) (f : Nat → Nat) (M : Nat) (h : ∀ i ∈ l, f i ≤ M) :
    (l.map f).sum ≤ l.length * M := by
  induction l with
  | nil => simp
  | cons a l ih =>
    have h1 := h a (List.mem_cons_self ..)
    have h2 := ih (fun i hi => h i (List.mem_cons_of_mem _ hi))
    simp only [List.map_cons, List.sum_cons, List.length_cons, Nat.add_mul, Nat.one_mul]
    omega

theorem nodup_length_le (n : Nat) : ∀ (l : List Nat), l.Nodup → (∀ x ∈ l, x < n) → l.length ≤ n := by
  induction n with
  | zero =>
    intro l _ h
    cases l with
    | nil => simp
    | cons a l => exact absurd (h a (List.mem_cons_self ..)) (by omega)
  | succ n ih =>
    intro l hn h
    have hn' : (l.erase n).Nodup := hn.sublist (List.erase_sublist ..)
    have h' : ∀ x ∈ l.erase n, x < n := by
      intro x hx
      have hx1 : x ∈ l := List.mem_of_mem_erase hx
      have hx2 : x ≠ n := by
        intro e; subst e
        exact (List.Nodup.not_mem_erase hn) hx
      have := h x hx1
      omega
    have := ih (l.erase n) hn' h'
    have hl := List.length_erase_le (a := n) (l := l)
    by_cases hm : n ∈ l
    · rw [List.length_erase_of_mem hm] at this
      omega
    · rw [List.erase_of_not_mem hm] at this
      omega

/-- **the monitor for the pairs the recursion forms**, from size bounds only -/
theorem monHypL_of_bounds {bt : Nat} {t : Int} {gpo gpe tgpe : SoftF32} {ap : AlnParam SoftF32}
    (hp : paramOfTableS bt t gpo gpe tgpe = some ap) (codes : Array (List Nat)) (Ls : List Nat) (M : Nat)
    (hLs : Ls.length ≤ 131072) (hM : ∀ i ∈ Ls, (codes.getD i []).length ≤ M) (hprod : Ls.length * M < 524288) :
    MonHypL ap codes Ls := by
  intro A B la lb rA rB iA iB hsub
  have hlen := hsub.length_le
  rw [List.length_append] at hlen
  have hA := rA.nsip
  have hB := rB.nsip
  have hlA := rA.len_le
  have hlB := rB.len_le
  have hsum : (la.map fun i => (codes.getD i []).length).sum + (lb.map fun i => (codes.getD i []).length).sum ≤
      (la ++ lb).length * M := by
    rw [← List.sum_append, ← List.map_append]
    exact sum_map_le_length_mul _ _ M (fun i hi => hM i (hsub.subset hi))
  have hmul : (la ++ lb).length * M ≤ Ls.length * M := Nat.mul_le_mul_right _ hsub.length_le
  exact monHyp_bounded hp codes A B rA.reach rB.reach iA iB (by omega) (by omega) (by omega)

/-- every sample of the guide tree ends up in exactly one leaf (a statement about `bisecting_kmeans` / `upgma`, no DP score involved) -/
def GuideTreeDistinct (inp : List InSeq) : Prop :=
  ∀ c T, canon inp = some c →
    buildTasks true (treeCodes (bioOf detectF inp) c) =
      .ok (Kmeans.sortTasks (treeTasks T (treeCodes (bioOf detectF inp) c).size)).toArray → T.leaves.Nodup

theorem canon_length_le (inp : List InSeq) (c : List RSeq) (h : canon inp = some c) : (view c).length ≤ inp.length := by
  unfold canon at h
  cases he : essentialInputCheck inp with
  | none => rw [he] at h; cases h
  | some l =>
    rw [he] at h
    simp only [Option.map_some, Option.some.injEq] at h
    subst h
    have hv := essentialInputCheck_view inp l he
    have hperm : (view (sortLenName l)).Perm (view l) := (List.mergeSort_perm l leLenName).map _
    rw [hperm.length_eq, hv]
    unfold keptView
    rw [List.length_map]
    exact List.length_filter_le _ _

/-- **stages "fault" and "monitor" on the `SoftF32` carrier, no hypothesis about DP score values**: at most 2¹⁷ sequences of at most
`M` residues with `numseq · M < 2¹⁹`, and a guide tree with pairwise distinct leaves -/
theorem kalignRunSoft_never_fault_monitor_of_distinct (inp : List InSeq) (type : Int) (gpo gpe tgpe : SoftF32) (M : Nat)
    (hn : inp.length ≤ 131072) (hlen : ∀ x ∈ inp, x.seq.length ≤ M) (hprod : inp.length * M < 524288)
    (hT : GuideTreeDistinct inp) :
    kalignRunSoft inp type gpo gpe tgpe ≠ .error .fault ∧ kalignRunSoft inp type gpo gpe tgpe ≠ .error .monitor := by
  have h := (kalignRunWithC_casesL (fun bio => paramOfTableS bio.code type gpo gpe tgpe) inp).2.2 (by
    intro c ap T hc hp hb hleaves
    have hnd := hT c T hc hb
    have hsz : (treeCodes (bioOf detectF inp) c).size = (view c).length := by simp [treeCodes]
    have hsz2 : (alnCodes (bioOf detectF inp) c).size = (view c).length := by simp [alnCodes]
    have hcl := canon_length_le inp c hc
    have hTl : T.leaves.length ≤ (view c).length := by
      rw [← hsz]
      exact nodup_length_le _ _ hnd (fun x hx => (hleaves x).1 hx)
    refine monHypL_of_bounds hp _ T.leaves M (by omega) ?_ ?_
    · intro i hi
      have hi' : i < (alnCodes (bioOf detectF inp) c).size := by
        rw [hsz2, ← hsz]; exact (hleaves i).1 hi
      obtain ⟨x, hx, ex⟩ := alnCodes_length _ c i hi'
      obtain ⟨x', hx', ex'⟩ := canon_mem inp c hc x hx
      rw [ex, ← ex']
      exact hlen x' hx'
    · have : T.leaves.length * M ≤ inp.length * M := Nat.mul_le_mul_right _ (by omega)
      omega)
  unfold kalignRunSoft
  cases hr : kalignRunWithC detectF true (fun bio => paramOfTableS bio.code type gpo gpe tgpe) inp with
  | ok v => simp [Except.map]
  | error e =>
    rw [hr] at h
    simp only [Except.map, ne_eq, Except.error.injEq] at h ⊢
    exact h

/-- all four stages: the only remaining hypotheses are about the guide tree (`PipelineUpgmaHyp`: `Float32` values in `upgma`;
`GuideTreeDistinct`: structural) -/
theorem kalignRunSoft_never_faults_of_distinct (inp : List InSeq) (type : Int) (gpo gpe tgpe : SoftF32) (M : Nat)
    (hn : inp.length ≤ 131072) (hlen : ∀ x ∈ inp, x.seq.length ≤ M) (hprod : inp.length * M < 524288)
    (hU : PipelineUpgmaHyp inp) (hT : GuideTreeDistinct inp) :
    kalignRunSoft inp type gpo gpe tgpe ≠ .error .fault ∧ kalignRunSoft inp type gpo gpe tgpe ≠ .error .tree ∧
    kalignRunSoft inp type gpo gpe tgpe ≠ .error .monitor ∧ kalignRunSoft inp type gpo gpe tgpe ≠ .error .fuel :=
  ⟨(kalignRunSoft_never_fault_monitor_of_distinct inp type gpo gpe tgpe M hn hlen hprod hT).1,
    kalignRunSoft_never_tree_partial inp type gpo gpe tgpe hU,
    (kalignRunSoft_never_fault_monitor_of_distinct inp type gpo gpe tgpe M hn hlen hprod hT).2,
    kalignRunSoft_never_fuel inp type gpo gpe tgpe⟩

end Kalign.Pipeline
