import KalignModel.Model.Alphabet
import KalignModel.Model.Detect
import KalignModel.Props.C13
/-!
# C14 — letter case and RNA/DNA spelling do not influence the alignment

Everything downstream of `convert_msa_to_internal` sees residues only through their internal codes and lengths
(`kalign_run` works on `seq->s`; rows are produced by weaving the untouched `seq->seq` letters with the gap vectors).
So it suffices that (i) codes are invariant under case change / T<->U for the three alphabets kalign_run uses and
(ii) the DNA/protein decision is invariant.
-/
namespace Kalign
open DetectLemmas

/-- alphabets used by kalign_run: defDNA (5), redPROTEIN (13), ambigiousPROTEIN (23) -/
def usedAlphabets : List Nat := [5, 13, 23]

/-- (i-a) codes do not depend on case -/
theorem C14_codes_case_invariant : ∀ id ∈ usedAlphabets, ∀ c ∈ List.range 128,
    codeOf id (toggleCase c) = codeOf id c := by decide +kernel

/-- (i-b) U and T (either case) have the same code in the nucleotide alphabet -/
theorem C14_codes_TU : codeOf 5 85 = codeOf 5 84 ∧ codeOf 5 117 = codeOf 5 116 ∧ codeOf 5 85 = codeOf 5 116 := by decide

/-- every letter gets a code inside the alphabet (no -1, below L) -/
theorem C14_codes_defined : ∀ id ∈ usedAlphabets, ∀ c ∈ List.range 128, isAsciiLetter c = true →
    0 ≤ codeOf id c ∧ codeOf id c < ((alphaRow id).map (·.L)).getD 0 := by decide +kernel

/-- (ii-a) both letter sets of `detect_alphabet` are closed under case change -/
theorem C14_detect_sets_case_closed : ∀ c ∈ List.range 128,
    Gen.dnaLettersB.contains (toggleCase c) = Gen.dnaLettersB.contains c ∧
    Gen.proteinLettersB.contains (toggleCase c) = Gen.proteinLettersB.contains c := by decide +kernel

/-- (ii-b) T and U are in the same classes of `detect_alphabet` -/
theorem C14_detect_sets_TU :
    Gen.dnaLettersB.contains 84 = Gen.dnaLettersB.contains 85 ∧ Gen.proteinLettersB.contains 84 = Gen.proteinLettersB.contains 85 ∧
    Gen.dnaLettersB.contains 116 = Gen.dnaLettersB.contains 117 ∧ Gen.proteinLettersB.contains 116 = Gen.proteinLettersB.contains 117 := by decide

/-- a respelling: every byte is replaced by one with the same detection classes -/
def sameClass (c d : Nat) : Bool :=
  Gen.dnaLettersB.contains c == Gen.dnaLettersB.contains d && Gen.proteinLettersB.contains c == Gen.proteinLettersB.contains d

/-- (ii) the detected kind is invariant under any bytewise respelling that preserves the detection classes
(case changes and T<->U are such respellings by the two theorems above) -/
theorem C14_detect_respell_invariant (seqs : List (List Nat)) (f : Nat → Nat)
    (hf : ∀ c, c < 128 → f c < 128 ∧ sameClass c (f c) = true) (hs : ∀ s ∈ seqs, ∀ c ∈ s, c < 128) :
    detectExact (histOf (seqs.map (·.map f))) = detectExact (histOf seqs) := by
  have hflat : (seqs.map (·.map f)).flatten = seqs.flatten.map f := (List.map_flatten).symm
  have hb : ∀ b ∈ seqs.flatten, b < 128 := by
    intro b hbm
    obtain ⟨s, hs1, hs2⟩ := List.mem_flatten.mp hbm
    exact hs s hs1 b hs2
  have hb' : ∀ b ∈ seqs.flatten.map f, b < 128 := by
    intro b hbm
    obtain ⟨a, ha, rfl⟩ := List.mem_map.mp hbm
    exact (hf a (hb a ha)).1
  -- class totals of the respelled input equal those of the input
  have key : ∀ q : Nat → Bool, (∀ c d, sameClass c d = true → q c = q d) →
      sumW q (histOf (seqs.map (·.map f))).zipIdx = sumW q (histOf seqs).zipIdx := by
    intro q hq
    unfold histOf
    rw [hist_eq_count, hist_eq_count, hflat, sumW_hist q _ 128 hb', sumW_hist q _ 128 hb, List.countP_map]
    apply List.countP_congr
    intro b hbm
    have := hq b (f b) (hf b (hb b hbm)).2
    simp [Function.comp, this]
  have hcls : ∀ c d, sameClass c d = true → isD c = isD d ∧ isP c = isP d := by
    intro c d h
    simpa [sameClass, isD, isP] using h
  rw [detectExact_eq_classes, detectExact_eq_classes]
  unfold nS nD nP nO
  rw [key (fun c => isD c && isP c) (fun c d h => by simp [(hcls c d h).1, (hcls c d h).2]),
    key (fun c => isD c && !isP c) (fun c d h => by simp [(hcls c d h).1, (hcls c d h).2]),
    key (fun c => !isD c && isP c) (fun c d h => by simp [(hcls c d h).1, (hcls c d h).2]),
    key (fun c => !isD c && !isP c) (fun c d h => by simp [(hcls c d h).1, (hcls c d h).2])]

/-- T -> U (either case), all other bytes unchanged -/
def tToU (c : Nat) : Nat := if c = 84 then 85 else if c = 116 then 117 else c

-- non-vacuity of `hf`: case toggling and T -> U are respellings in the sense of the theorem
theorem C14_toggleCase_respell : ∀ c, c < 128 → toggleCase c < 128 ∧ sameClass c (toggleCase c) = true := by
  decide +kernel
theorem C14_tToU_respell : ∀ c, c < 128 → tToU c < 128 ∧ sameClass c (tToU c) = true := by
  decide +kernel

-- a concrete instance: "ACGT","acgtn" respelled to "ACGU","acgun" / to "acgt","ACGTN"
example : detectExact (histOf ([[65, 67, 71, 84], [97, 99, 103, 116, 110]].map (·.map tToU))) =
    detectExact (histOf [[65, 67, 71, 84], [97, 99, 103, 116, 110]]) :=
  C14_detect_respell_invariant _ tToU C14_tToU_respell (by decide)
example : detectExact (histOf ([[65, 67, 71, 84], [97, 99, 103, 116, 110]].map (·.map toggleCase))) =
    detectExact (histOf [[65, 67, 71, 84], [97, 99, 103, 116, 110]]) :=
  C14_detect_respell_invariant _ toggleCase C14_toggleCase_respell (by decide)
example : [[65, 67, 71, 84], [97, 99, 103, 116, 110]].map (·.map tToU) = [[65, 67, 71, 85], [97, 99, 103, 117, 110]] ∧
    [[65, 67, 71, 84], [97, 99, 103, 116, 110]].map (·.map toggleCase) = [[97, 99, 103, 116], [65, 67, 71, 84, 78]] := by
  decide

/-- (i) the internal codes are invariant under a respelling that preserves codes -/
theorem C14_convert_respell_invariant (id : Nat) (s : List Nat) (f : Nat → Nat)
    (hf : ∀ c ∈ s, codeOf id (f c) = codeOf id c) :
    convert id (s.map f) = convert id s := by
  simp only [convert, List.map_map]
  apply List.map_congr_left
  intro c hc
  exact hf c hc

end Kalign
