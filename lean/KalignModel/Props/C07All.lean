import KalignModel.Props.C07Prof
import KalignModel.Props.C07Soft
import KalignModel.Props.C07SoftProf
import KalignModel.Props.C07SoftGroups
import KalignModel.Props.C07SoftGroupsEx
/-! aggregator for tools/props/c07.py: structure + exact optimality (C07, C07Opt, C07Prof) and its transfer to binary32 (C07Soft, C07SoftProf) -/
