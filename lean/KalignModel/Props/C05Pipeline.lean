import KalignModel.Lemmas.NoFaultRec
import KalignModel.Lemmas.NoFaultTree
import KalignModel.Lemmas.Pipeline
import KalignModel.Lemmas.Canon
/-!
# C05 (pipeline) — the composed model `kalignRun` of `kalign()` never takes a fault path

`kalignRun` (Model/Pipeline.lean) returns `PipeErr.fault / .tree / .monitor / .fuel` where the C code would read or write
outside an object, miss a task or an operand, violate the Hirschberg meetup contract, or where the model's recursion
budget does not suffice.  The goal is

    theorem kalignRun_never_faults (inp : List InSeq) (type : Int) (gpo gpe tgpe : Float32) :
        kalignRun inp type gpo gpe tgpe ≠ .error .fault ∧ kalignRun inp type gpo gpe tgpe ≠ .error .tree ∧
        kalignRun inp type gpo gpe tgpe ≠ .error .monitor ∧ kalignRun inp type gpo gpe tgpe ≠ .error .fuel

i.e. the only errors are the documented rejections (`badByte`, `tooFew`, `alphabet`, `param`).

## what is proved

Lean's `Float32` operations (`+`, `*`, `<`, …) are opaque constants for the kernel: no theorem about the *value* of a
binary32 expression can be proved in core Lean.  Everything that does not depend on such a value is proved outright, for
every input; the two places where the fault paths are guarded by a comparison of score values are isolated as two named
hypotheses, each a statement about binary32 arithmetic only:

* `kalignRun_never_fuel` — **full**: the recursion budgets always suffice (`bisecting_kmeans`: the two parts of a split are
  non-empty; `recursive_aln`: the sorted task table is the guide tree, entry `c - numseq` is the task numbered `c`, children
  carry smaller numbers).
* `kalignRun_never_tree_partial` — stage "tree" under `PipelineUpgmaHyp` (in every matrix the `upgma` rounds reach, the entries
  of active pairs are `< FLT_MAX`, so the scan for the minimum finds a pair).  Proved outright: `pick_anchor`, both
  `d_estimation` modes (all residue codes `< 13`, so `Peq[13]` is indexed in range), `split2` (rows long enough, seed in range),
  the scan returns an active pair, active slots hold trees, the leaves of every returned tree are exactly the samples.
* `kalignRun_never_fault_monitor_partial` — stages "fault" and "monitor" under `PipelineMonHyp` (every serial Hirschberg run on
  two operands the progressive alignment can form passes `meetupContract` at every meetup).  Proved outright, *for every score
  carrier and every outcome of the score comparisons*: the controller never faults (`alnRun_serial_no_fault`: enough fuel, every
  path write inside the array, every kernel call on a rectangle inside the operands, state arrays long enough, the cut column
  inside the rectangle whenever a transition was chosen); given the contract: `aln_runner` = `aln_runner_serial`, the path is
  well-shaped, `mirror_path_n` + `add_gap_info_to_path_n` succeed, the column codes are valid (second monitor test), `update_n`
  stays inside its profiles, every node has a profile of `64*(len+2)` floats, every task and operand exists, every input sequence
  is a member of the root.
* `kalignRun_never_faults_partial` — the goal under both hypotheses.

`MonHyp` is *false* for score carriers whose comparisons can all fail (NaN penalties: the meetup keeps its sentinel
`transition = -1`, `c = -1`); `aln_param_init` rejects NaN / negative / `> 1e6` penalties (`paramOfTable`), and no admitted
parameter set producing a sentinel cut was found (see the report of slice V).
-/
namespace Kalign.Pipeline
open Kalign Kalign.Kmeans Kalign.Sched

/-! ## the core: tree + progressive alignment on the two code lists -/

theorem find_members (N : Node) (l : List Nat) (h : HasMembers N l) (i : Nat) (hi : i ∈ l) :
    ∃ g, finalGaps N.group i = some g := by
  obtain ⟨m, hm, hidx⟩ := h i hi
  unfold finalGaps
  cases hf : N.group.find? (·.idx = i) with
  | none =>
    rw [List.find?_eq_none] at hf
    exact absurd (by simpa using hidx) (hf m hm)
  | some m' => exact ⟨_, rfl⟩

theorem tree_is_node (T : Tree) (n : Nat) (hn : 2 ≤ n) (hl : ∀ x, x ∈ T.leaves ↔ x < n) : ∃ l r, T = .node l r := by
  cases T with
  | node l r => exact ⟨l, r, rfl⟩
  | leaf i =>
    have h0 := (hl 0).2 (by omega)
    have h1 := (hl 1).2 (by omega)
    simp only [Tree.leaves, List.mem_singleton] at h0 h1
    omega

/-- the three facts about `core`; `c1` = codes in the tree alphabet, `c2` = codes in the alignment alphabet -/
theorem core_cases (avx : Bool) (bio : Bio) (c1 c2 : List (List Nat)) (type : Int) (gpo gpe tgpe : Float32)
    (hlen : c1.length = c2.length) (h13 : ∀ s ∈ c1, ∀ c ∈ s, c < 13)
    (h23 : ∀ s ∈ c2, s ≠ [] ∧ ∀ c ∈ s, c < 23) :
    core avx bio c1 c2 type gpo gpe tgpe ≠ .error .fuel ∧
    (UpgmaHyp c1.toArray → core avx bio c1 c2 type gpo gpe tgpe ≠ .error .tree) ∧
    ((∀ ap, paramOfTable bio.code type gpo gpe tgpe = some ap → MonHyp ap c2.toArray) →
      core avx bio c1 c2 type gpo gpe tgpe ≠ .error .fault ∧ core avx bio c1 c2 type gpo gpe tgpe ≠ .error .monitor) := by
  unfold core
  simp only
  by_cases hn : c2.length < 2
  · simp [hn]
  rw [if_neg hn]
  have hsz1 : c1.toArray.size = c2.length := by simp [hlen]
  rcases buildTasks_cases avx c1.toArray (by rw [hsz1]; omega) (by simpa using h13) with ⟨T, hT, hleaves⟩ | ⟨hE, hnU⟩
  · rw [hT]
    simp only
    rw [hsz1] at hleaves ⊢
    cases hp : paramOfTable bio.code type gpo gpe tgpe with
    | none => simp
    | some ap =>
      simp only
      obtain ⟨l, r, hlr⟩ := tree_is_node T c2.length (by omega) hleaves
      obtain ⟨L, R, hroot⟩ := label_node l r c2.length
      rw [← hlr] at hroot
      have hsize : (Kmeans.sortTasks (treeTasks T c2.length)).toArray.size = Kmeans.Tree.nint T := by
        simp [length_sortTasks]
      have hpos : 1 ≤ Kmeans.Tree.nint T := by rw [hlr]; simp [Kmeans.Tree.nint]
      have hcsz : c2.toArray.size = c2.length := by simp
      have hchild : recAln ap (Kmeans.sortTasks (treeTasks T c2.length)).toArray c2.toArray c2.length
          (Kmeans.sortTasks (treeTasks T c2.length)).toArray.size
          ((Kmeans.sortTasks (treeTasks T c2.length)).toArray.size - 1) =
          childOf ap (Kmeans.sortTasks (treeTasks T c2.toArray.size)).toArray c2.toArray c2.toArray.size
            (Kmeans.Tree.nint T) (label T c2.toArray.size).id := by
        rw [hcsz, hroot, hsize]
        show _ = childOf _ _ _ _ _ (c2.length + Kmeans.Tree.nint T - 1)
        unfold childOf
        rw [if_pos (by omega)]
        congr 1
        omega
      rw [hchild]
      have hleaves' : ∀ i ∈ T.leaves, i < c2.toArray.size := by
        intro i hi; rw [hcsz]; exact (hleaves i).1 hi
      have hnint : Kmeans.LTree.nint (label T c2.toArray.size) ≤ Kmeans.Tree.nint T := by
        unfold label; rw [(labelFrom_iids T c2.toArray.size).2.2]; exact Nat.le_refl _
      have hnofuel := recAln_tree_no_fuel ap T c2.toArray hleaves' _ (.refl _) (Kmeans.Tree.nint T) hnint
      refine ⟨?_, ?_, ?_⟩
      · cases hc : childOf ap (Kmeans.sortTasks (treeTasks T c2.toArray.size)).toArray c2.toArray c2.toArray.size
            (Kmeans.Tree.nint T) (label T c2.toArray.size).id with
        | error e =>
          simp only
          intro h
          simp only [Except.error.injEq] at h
          exact hnofuel (by rw [hc, h])
        | ok root =>
          simp only
          split <;> simp
      · intro _
        cases hc : childOf ap (Kmeans.sortTasks (treeTasks T c2.toArray.size)).toArray c2.toArray c2.toArray.size
            (Kmeans.Tree.nint T) (label T c2.toArray.size).id with
        | error e =>
          simp only
          intro h
          simp only [Except.error.injEq] at h
          subst h
          -- `.tree` is never produced by `recAln`
          have : ∀ (fuel k : Nat), recAln ap (Kmeans.sortTasks (treeTasks T c2.toArray.size)).toArray c2.toArray
              c2.toArray.size fuel k ≠ .error .tree := by
            intro fuel
            induction fuel with
            | zero => intro k; simp [recAln]
            | succ fuel ih =>
              intro k
              rw [recAln]
              split
              · simp
              · rename_i a b c _
                have hch : ∀ x, (if x ≥ c2.toArray.size then
                    recAln ap (Kmeans.sortTasks (treeTasks T c2.toArray.size)).toArray c2.toArray c2.toArray.size fuel
                      (x - c2.toArray.size)
                    else if x < c2.toArray.size then Except.ok (leafNode c2.toArray x) else Except.error PipeErr.fault) ≠
                    .error .tree := by
                  intro x
                  split
                  · exact ih _
                  · split <;> simp
                simp only
                split
                · rename_i e he
                  intro h
                  simp only [Except.error.injEq] at h
                  subst h
                  exact hch a he
                · split
                  · rename_i e he
                    intro h
                    simp only [Except.error.injEq] at h
                    subst h
                    exact hch b he
                  · unfold mergeNodes
                    simp only
                    split
                    · simp
                    · split
                      · simp
                      · split <;> simp
          unfold childOf at hc
          split at hc
          · exact this _ _ hc
          · split at hc <;> simp at hc
        | ok root =>
          simp only
          split <;> simp
      · intro hM
        have hne : ∀ i, i < c2.toArray.size → c2.toArray.getD i [] ≠ [] ∧ ∀ c ∈ c2.toArray.getD i [], c < 23 := by
          intro i hi
          rw [hcsz] at hi
          have : c2.toArray.getD i [] = c2[i] := by simp [Array.getD, hi]
          rw [this]
          exact h23 _ (List.getElem_mem hi)
        obtain ⟨N, hN, hmem, _⟩ := recAln_tree ap T c2.toArray hleaves' hne (hM ap rfl) _ (.refl _)
          (Kmeans.Tree.nint T) hnint
        rw [hN]
        simp only
        have hall : ∀ i ∈ List.range c2.length, ∃ g, finalGaps N.group i = some g ∧ True := by
          intro i hi
          have hi' : i ∈ (label T c2.toArray.size).leaves := by
            unfold label
            rw [(labelFrom_spec T c2.toArray.size).2.1]
            exact (hleaves i).2 (List.mem_range.1 hi)
          obtain ⟨g, hg⟩ := find_members N _ hmem i hi'
          exact ⟨g, hg, trivial⟩
        obtain ⟨gs, hgs, _⟩ := mapM_option_spec (finalGaps N.group) (fun _ => True) (List.range c2.length) hall
        rw [hgs]
        simp
  · rw [hE]
    simp only
    refine ⟨by simp, fun hU => absurd hU hnU, fun _ => ⟨by simp, by simp⟩⟩

/-! ## the hypotheses, stated on the input -/

/-- codes of the canonical sequences in the guide-tree alphabet / in the alignment alphabet (as `stagesG` computes them) -/
def treeCodes (bio : Bio) (c : List RSeq) : Array (List Nat) :=
  (((view c).map fun x => bytesOf x.2).map (convertN (treeAlphabet bio))).toArray
def alnCodes (bio : Bio) (c : List RSeq) : Array (List Nat) :=
  (((view c).map fun x => bytesOf x.2).map (convertN (alnAlphabet bio))).toArray

/-- **hypothesis U** (binary32 values in `upgma`): see `UpgmaHyp` -/
def PipelineUpgmaHyp (inp : List InSeq) : Prop :=
  ∀ c, canon inp = some c → UpgmaHyp (treeCodes (bioOf detectF inp) c)

/-- **hypothesis M** (binary32 values in the Hirschberg meetups): see `MonHyp` -/
def PipelineMonHyp (inp : List InSeq) (type : Int) (gpo gpe tgpe : Float32) : Prop :=
  ∀ c ap, canon inp = some c → paramOfTable (bioOf detectF inp).code type gpo gpe tgpe = some ap →
    MonHyp ap (alnCodes (bioOf detectF inp) c)

/-! ## canonical sequences are non-empty -/

theorem canon_nonempty (inp : List InSeq) (c : List RSeq) (h : canon inp = some c) : ∀ x ∈ view c, x.2 ≠ [] := by
  unfold canon at h
  cases he : essentialInputCheck inp with
  | none => rw [he] at h; cases h
  | some l =>
    rw [he] at h
    simp only [Option.map_some, Option.some.injEq] at h
    subst h
    have hv := essentialInputCheck_view inp l he
    have hperm : (view (sortLenName l)).Perm (view l) := (List.mergeSort_perm l leLenName).map _
    intro x hx
    have hx' := hperm.mem_iff.1 hx
    rw [hv] at hx'
    unfold keptView at hx'
    simp only [List.mem_map, List.mem_filter] at hx'
    obtain ⟨y, ⟨_, hy⟩, rfl⟩ := hx'
    intro h0
    have hy' : ¬ y.seq = [] := by simpa using hy
    exact hy' h0

theorem stagesG_cases (avx : Bool) (bio : Bio) (type : Int) (gpo gpe tgpe : Float32) (V : List (Name × List Char))
    (hV : ∀ x ∈ V, x.2 ≠ []) :
    stagesG avx bio type gpo gpe tgpe V ≠ .error .fuel ∧
    (UpgmaHyp ((V.map fun x => bytesOf x.2).map (convertN (treeAlphabet bio))).toArray →
      stagesG avx bio type gpo gpe tgpe V ≠ .error .tree) ∧
    ((∀ ap, paramOfTable bio.code type gpo gpe tgpe = some ap →
        MonHyp ap ((V.map fun x => bytesOf x.2).map (convertN (alnAlphabet bio))).toArray) →
      stagesG avx bio type gpo gpe tgpe V ≠ .error .fault ∧ stagesG avx bio type gpo gpe tgpe V ≠ .error .monitor) := by
  have hcore := core_cases avx bio ((V.map fun x => bytesOf x.2).map (convertN (treeAlphabet bio)))
    ((V.map fun x => bytesOf x.2).map (convertN (alnAlphabet bio))) type gpo gpe tgpe (by simp)
    (by
      intro s hs
      simp only [List.map_map, List.mem_map, Function.comp_apply] at hs
      obtain ⟨x, _, rfl⟩ := hs
      intro c hc
      rcases treeAlphabet_cases bio with h | h
      · have := convertN_lt 5 (Or.inl rfl) (bytesOf x.2) c (by rw [← h]; exact hc); omega
      · exact convertN_lt 13 (Or.inr (Or.inl rfl)) (bytesOf x.2) c (by rw [← h]; exact hc))
    (by
      intro s hs
      simp only [List.map_map, List.mem_map, Function.comp_apply] at hs
      obtain ⟨x, hx, rfl⟩ := hs
      refine ⟨?_, ?_⟩
      · intro h0
        have := congrArg List.length h0
        rw [length_convertN] at this
        simp only [bytesOf, List.length_map, List.length_nil] at this
        exact hV x hx (List.length_eq_zero_iff.1 this)
      · intro c hc
        rcases alnAlphabet_cases bio with h | h
        · have := convertN_lt 5 (Or.inl rfl) (bytesOf x.2) c (by rw [← h]; exact hc); omega
        · exact convertN_lt 23 (Or.inr (Or.inr rfl)) (bytesOf x.2) c (by rw [← h]; exact hc))
  obtain ⟨c1, c2, c3⟩ := hcore
  unfold stagesG
  cases bio with
  | unknown => exact ⟨by simp, fun _ => by simp, fun _ => ⟨by simp, by simp⟩⟩
  | protein =>
    simp only
    cases hc : core avx Bio.protein
        (List.map (convertN (treeAlphabet Bio.protein)) (List.map (fun x => bytesOf x.2) V))
        (List.map (convertN (alnAlphabet Bio.protein)) (List.map (fun x => bytesOf x.2) V)) type gpo gpe tgpe with
    | ok g => exact ⟨by simp, fun _ => by simp, fun _ => ⟨by simp, by simp⟩⟩
    | error e =>
      rw [hc] at c1 c2 c3
      simp only [ne_eq, Except.error.injEq] at c1 c2 c3 ⊢
      exact ⟨c1, c2, c3⟩
  | dna =>
    simp only
    cases hc : core avx Bio.dna
        (List.map (convertN (treeAlphabet Bio.dna)) (List.map (fun x => bytesOf x.2) V))
        (List.map (convertN (alnAlphabet Bio.dna)) (List.map (fun x => bytesOf x.2) V)) type gpo gpe tgpe with
    | ok g => exact ⟨by simp, fun _ => by simp, fun _ => ⟨by simp, by simp⟩⟩
    | error e =>
      rw [hc] at c1 c2 c3
      simp only [ne_eq, Except.error.injEq] at c1 c2 c3 ⊢
      exact ⟨c1, c2, c3⟩

theorem kalignRun_cases (inp : List InSeq) (type : Int) (gpo gpe tgpe : Float32) :
    kalignRun inp type gpo gpe tgpe ≠ .error .fuel ∧
    (PipelineUpgmaHyp inp → kalignRun inp type gpo gpe tgpe ≠ .error .tree) ∧
    (PipelineMonHyp inp type gpo gpe tgpe →
      kalignRun inp type gpo gpe tgpe ≠ .error .fault ∧ kalignRun inp type gpo gpe tgpe ≠ .error .monitor) := by
  rw [kalignRun_eq]
  by_cases hb : hasBadByte inp = true
  · simp [hb]
  simp only [hb, Bool.false_eq_true, if_false]
  cases hc : canon inp with
  | none => simp
  | some c =>
    simp only
    obtain ⟨s1, s2, s3⟩ := stagesG_cases true (bioOf detectF inp) type gpo gpe tgpe (view c) (canon_nonempty inp c hc)
    cases hs : stagesG true (bioOf detectF inp) type gpo gpe tgpe (view c) with
    | ok rows => simp
    | error e =>
      rw [hs] at s1 s2 s3
      simp only [ne_eq, Except.error.injEq] at s1 s2 s3 ⊢
      exact ⟨s1, fun hU => s2 (hU c hc), fun hM => s3 (fun ap hp => hM c ap hc hp)⟩

/-! ## the theorems -/

/-- **stage "fuel" (full)**: the recursion budgets of the model always suffice — `bisecting_kmeans` and `recursive_aln`
terminate within the depth the model allots, for every input and every parameter -/
theorem kalignRun_never_fuel (inp : List InSeq) (type : Int) (gpo gpe tgpe : Float32) :
    kalignRun inp type gpo gpe tgpe ≠ .error .fuel :=
  (kalignRun_cases inp type gpo gpe tgpe).1

/-- **stage "tree"**, missing fact = `PipelineUpgmaHyp` (a statement about binary32 values only).  Full statement:
`kalignRun inp type gpo gpe tgpe ≠ .error .tree` for all arguments. -/
theorem kalignRun_never_tree_partial (inp : List InSeq) (type : Int) (gpo gpe tgpe : Float32)
    (hU : PipelineUpgmaHyp inp) : kalignRun inp type gpo gpe tgpe ≠ .error .tree :=
  (kalignRun_cases inp type gpo gpe tgpe).2.1 hU

/-- **stages "fault" and "monitor"**, missing fact = `PipelineMonHyp` (the meetup contract on the binary32 carrier).  Full
statement: `kalignRun … ≠ .error .fault ∧ kalignRun … ≠ .error .monitor` for all arguments. -/
theorem kalignRun_never_fault_monitor_partial (inp : List InSeq) (type : Int) (gpo gpe tgpe : Float32)
    (hM : PipelineMonHyp inp type gpo gpe tgpe) :
    kalignRun inp type gpo gpe tgpe ≠ .error .fault ∧ kalignRun inp type gpo gpe tgpe ≠ .error .monitor :=
  (kalignRun_cases inp type gpo gpe tgpe).2.2 hM

/-- the goal under the two hypotheses about binary32 values -/
theorem kalignRun_never_faults_partial (inp : List InSeq) (type : Int) (gpo gpe tgpe : Float32)
    (hU : PipelineUpgmaHyp inp) (hM : PipelineMonHyp inp type gpo gpe tgpe) :
    kalignRun inp type gpo gpe tgpe ≠ .error .fault ∧ kalignRun inp type gpo gpe tgpe ≠ .error .tree ∧
    kalignRun inp type gpo gpe tgpe ≠ .error .monitor ∧ kalignRun inp type gpo gpe tgpe ≠ .error .fuel :=
  ⟨(kalignRun_never_fault_monitor_partial inp type gpo gpe tgpe hM).1, kalignRun_never_tree_partial inp type gpo gpe tgpe hU,
    (kalignRun_never_fault_monitor_partial inp type gpo gpe tgpe hM).2, kalignRun_never_fuel inp type gpo gpe tgpe⟩

/-- the errors that remain are the documented rejections -/
theorem kalignRun_errors_partial (inp : List InSeq) (type : Int) (gpo gpe tgpe : Float32)
    (hU : PipelineUpgmaHyp inp) (hM : PipelineMonHyp inp type gpo gpe tgpe) (e : PipeErr)
    (h : kalignRun inp type gpo gpe tgpe = .error e) : e = .badByte ∨ e = .tooFew ∨ e = .alphabet ∨ e = .param := by
  obtain ⟨h1, h2, h3, h4⟩ := kalignRun_never_faults_partial inp type gpo gpe tgpe hU hM
  cases e with
  | badByte => exact Or.inl rfl
  | tooFew => exact Or.inr (Or.inl rfl)
  | alphabet => exact Or.inr (Or.inr (Or.inl rfl))
  | param => exact Or.inr (Or.inr (Or.inr rfl))
  | tree => exact absurd h h2
  | fault => exact absurd h h1
  | monitor => exact absurd h h3
  | fuel => exact absurd h h4

end Kalign.Pipeline

/-! ## stage theorems that hold for every score carrier (no hypothesis on values) -/
namespace Kalign

/-- **the Hirschberg controller never faults**, for the real kernels on *any* score carrier (`Float32`, the exact carrier, a
carrier whose comparison always answers `false`, …), any operands and any lengths: the recursion fuel `Mem.fuel` suffices, every
`path[mid]`, `path[mid+1]` write is inside the path array, every forward/backward call is on a rectangle inside the operands with
state arrays of at least `endb+1` slots, and the cut column returned by `meetup` lies in `startb..endb` whenever a transition was
chosen (otherwise `aln_continue` does nothing). -/
theorem C05_controller_never_faults {β : Type} [Score β] (ap : AlnParam β) (ops : Operands β) (lenA lenB : Nat) :
    (alnRun .serial ap ops lenA lenB (initMem lenA lenB)).fault = false :=
  alnRun_serial_no_fault ap ops lenA lenB

/-- `path[1..len_a]`, which `do_align` reads after the run (`Mem.pathEntries`, a `getD` access in the model), lies inside
the path array -/
theorem C05_path_read_in_bounds {β : Type} [Score β] (ap : AlnParam β) (ops : Operands β) (lenA lenB : Nat) :
    lenA < (alnRun .serial ap ops lenA lenB (initMem lenA lenB)).path.size :=
  alnRun_serial_path_size ap ops lenA lenB

/-- **`do_align` never faults** on two prepared operands, given the meetup contract on its serial Hirschberg run (`hmon`); any
score carrier.  Full statement: the same without `hmon` for the carriers kalign uses. -/
theorem C05_doAlign_no_fault_partial {β : Type} [Score β] (ap : AlnParam β) (st : AlnState β) (a b c : Nat) (isLast : Bool)
    (lenA lenB : Nat) (pa pb : Array β)
    (hab : a ≠ b) (ha : a < st.nsip.size) (hb : b < st.nsip.size) (hc : c < st.nsip.size) (hcp : c < st.profile.size)
    (hA : prepOperand ap st a b = some (lenA, pa)) (hB : prepOperand ap st b a = some (lenB, pb))
    (hpa : pa.size = 64 * (lenA + 2)) (hpb : pb.size = 64 * (lenB + 2)) (h1 : 1 ≤ lenA) (h2 : 1 ≤ lenB)
    (hmon : (orientRun .serial ap (st.nsip.getD a 0) (st.nsip.getD b 0) lenA lenB (st.seqs.getD a #[])
      (st.seqs.getD b #[]) pa pb).mon = true) :
    doAlign .parallel ap st a b c isLast ≠ none := by
  obtain ⟨st', out, h, _⟩ := doAlign_some ap st a b c isLast lenA lenB pa pb hab ha hb hc hcp hA hB hpa hpb h1 h2 hmon
  rw [h]; simp

/-! non-vacuity of `C05_doAlign_no_fault_partial` on the exact carrier: two sequences; the monitor hypothesis holds by
kernel evaluation.  (For `Float32` no hypothesis about values can be discharged inside Lean: its operations are opaque;
`PipelineUpgmaHyp` / `PipelineMonHyp` are checked at run time instead: `kalignRun` evaluates to `.ok` on all
correspondence inputs, see the `#eval`s below.) -/
def exSt : AlnState ExactScore :=
  { seqs := #[#[0, 1, 2, 3], #[0, 2, 3, 3, 1]], profile := #[none, none, none], plen := #[0, 0, 0], nsip := #[1, 1, 0] }

example : doAlign .parallel exParam exSt 0 1 2 false ≠ none :=
  C05_doAlign_no_fault_partial exParam exSt 0 1 2 false 4 5 _ _ (by decide) (by decide) (by decide) (by decide) (by decide)
    (show prepOperand exParam exSt 0 1 = some (4, makeProfile exParam #[0, 1, 2, 3]) by simp [prepOperand, exSt])
    (show prepOperand exParam exSt 1 0 = some (5, makeProfile exParam #[0, 2, 3, 3, 1]) by simp [prepOperand, exSt])
    (by rw [size_makeProfile]; rfl) (by rw [size_makeProfile]; rfl) (by decide) (by decide)
    (show (orientRun .serial exParam (exSt.nsip.getD 0 0) (exSt.nsip.getD 1 0) 4 5 (exSt.seqs.getD 0 #[])
      (exSt.seqs.getD 1 #[]) (makeProfile exParam #[0, 1, 2, 3]) (makeProfile exParam #[0, 2, 3, 3, 1])).mon = true by
      decide +kernel)

/-- the controller theorem needs no hypothesis: instance on the exact carrier -/
example : (alnRun .serial exParam (.seqseq #[0, 1, 2, 3] #[0, 2, 3, 3, 1]) 4 5 (initMem 4 5)).fault = false :=
  C05_controller_never_faults _ _ _ _

/-- a carrier on which every comparison fails (`gt` constantly `false`, like NaN scores): the controller still does not
fault (`C05_controller_never_faults`), but the monitor fails — the hypothesis `hmon` / `MonHyp` is necessary -/
@[instance_reducible] def deafScore : Score Unit :=
  { add := fun _ _ => (), sub := fun _ _ => (), mul := fun _ _ => (), neg := fun _ => (), gt := fun _ _ => false,
    negInf := (), zero := (), one := (), ofNat := fun _ => (), isNonzero := fun _ => false, tie := fun _ _ _ => () }

def deafParam : @AlnParam Unit := { subm := #[], gpo := (), gpe := (), tgpe := () }

example : (@alnRun Unit deafScore .serial deafParam (.seqseq #[0, 1] #[0, 1, 2]) 2 3 (@initMem Unit deafScore 2 3)).mon = false := by
  decide +kernel
example : (@alnRun Unit deafScore .serial deafParam (.seqseq #[0, 1] #[0, 1, 2]) 2 3 (@initMem Unit deafScore 2 3)).fault = false :=
  @C05_controller_never_faults Unit deafScore _ _ _ _

end Kalign
