import KalignModel.Lemmas.Progressive
import KalignModel.Props.C01
/-!
# C10 — progressive merging never re-aligns a finished sub-alignment
-/
namespace Kalign
variable {α : Type}

/-- For every guide tree `T`, every node `v` of it and every valid aligner: the final rows of
`v`'s members, with the columns that are gaps in all of them removed, are exactly `v`'s alignment as
it was when `v` completed. -/
theorem C10_subalignment_preserved (seqs : Nat → List α) (al : Aligner α) (hal : al.Valid)
    (T v : Tree) (hsub : Tree.Sub v T) (hnd : T.leaves.Nodup) :
    dropAllGapCols ((alignTree seqs al v).map fun m => ((finalRow (alignTree seqs al T) m.idx).getD []))
        (alignTree seqs al T).plen
      = (alignTree seqs al v).map (·.seq.row) :=
  subalignment_preserved seqs al hal T v hsub hnd

/-- Consequently two residues that share a column when `v` completes share a column at the end:
stated on cells. If at completion of `v` members `m₁ m₂` have residues at the same column `k`, then
there is a final column `k'` holding the same two residues. -/
theorem C10_column_mates_stay (seqs : Nat → List α) (al : Aligner α) (hal : al.Valid)
    (T v : Tree) (hsub : Tree.Sub v T) (hnd : T.leaves.Nodup)
    (m₁ m₂ : Member α) (h₁ : m₁ ∈ alignTree seqs al v) (h₂ : m₂ ∈ alignTree seqs al v)
    (k : Nat) (x y : α) (hx : cell m₁.seq.row k = some x) (hy : cell m₂.seq.row k = some y) :
    ∃ k', cell ((finalRow (alignTree seqs al T) m₁.idx).getD []) k' = some x ∧
          cell ((finalRow (alignTree seqs al T) m₂.idx).getD []) k' = some y :=
  column_mates_stay seqs al hal T v hsub hnd m₁ m₂ h₁ h₂ k x y hx hy

end Kalign
