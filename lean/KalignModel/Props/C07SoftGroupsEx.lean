import KalignModel.Props.C07SoftGroups
/-!
# C07 / C08 on binary32, groups of identical copies — kernel evaluations (slice AB, non-vacuity part 2)

What the `SoftF32` model computes on the 2 × 2-copies instances of `Props/C07SoftGroups.lean` (`decide +kernel`, as
`Props/C07Prof.lean` does on the exact carrier): the conclusions of the theorems are what the model returns, the kernel equalities hold
on concrete tables, and `dpCodesS` is literally what `doAlign` computes on `SoftF32`.
-/
namespace Kalign
open SoftF32

/-- two copies against two copies of (0,4,7,17), protein defaults, binary32: the diagonal -/
example : dpCodesS .parallel (softParamOf 0 3)
    (.profprof (setGapPenalties exGroup2S 2) (setGapPenalties exGroup2S 2)) true 4 4 4 4 = some [0, 0, 0, 0] := by
  decide +kernel

/-- two copies of (W,C,W) against (W,W): `W W, C –, W W`, the `P` of `exMargin2S` -/
example : dpCodesS .parallel (softParamOf 0 3) (.seqprof (setGapPenalties exProf2S 1) #[17, 17] 2) false 3 2 3 2 =
    some [0, 2, 0] := by decide +kernel

/-- the kernel equalities on concrete tables: the profile–profile forward kernel on the 2 × 2-copies profiles (`k·m = 4`) and the
sequence–profile backward kernel (`k = 2`) return cell by cell the bit patterns of the sequence–sequence kernels on the scaled
parameters -/
example :
    (kForward (softParamOf 0 3) (.profprof (setGapPenalties exGroup2S 2) (setGapPenalties exGroup2S 2)) ⟨0, 2, 0, 4, 4⟩
        oneHotA).map (fun c => (c.a, c.ga, c.gb)) =
      (kForward (scaleParamS (softParamOf 0 3) 4) (.seqseq #[0, 4, 7, 17] #[0, 4, 7, 17]) ⟨0, 2, 0, 4, 4⟩ oneHotA).map
        (fun c => (c.a, c.ga, c.gb)) ∧
    (kBackward (softParamOf 0 3) (.seqprof (setGapPenalties exProf2S 1) #[17, 17] 2) ⟨1, 3, 0, 2, 2⟩ oneHotA).map
        (fun c => (c.a, c.ga, c.gb)) =
      (kBackward (scaleParamS (softParamOf 0 3) 2) (.seqseq #[17, 4, 17] #[17, 17]) ⟨1, 3, 0, 2, 2⟩ oneHotA).map
        (fun c => (c.a, c.ga, c.gb)) := by decide +kernel

/-- `dpCodesS` is literally what `do_align` computes on `SoftF32`: the progressive alignment of (W,C,W), (W,C,W), (W,W) — the first
call aligns the two identical sequences and builds `exProf2S` with `update_n`, the second call hands
`(.seqprof (setGapPenalties exProf2S 1) b 2)` to the controller; the result is the value of `dpCodesS` above -/
example :
    ((doAlign .parallel (softParamOf 0 3) (AlnState.init #[#[17, 4, 17], #[17, 4, 17], #[17, 17]]) 0 1 3 false).bind fun r =>
      doAlign .parallel (softParamOf 0 3) r.1 3 2 4 true).map (fun r => (r.2.codes, r.1.nsip.getD 4 0)) =
    some ([0, 2, 0], 3) := by
  decide +kernel

end Kalign
