import KalignModel.Lemmas.Pipeline
import KalignModel.Props.C03
import KalignModel.Props.C14
/-!
# Composition theorems for the whole pipeline (`kalignRun`, Model/Pipeline.lean)

`kalignRun` is tied to the running `kalign()` by the system-level correspondence op `kalign_sys`
(harness/ops_pipe.c, tools/gen_pipe.py).  The theorems below hold for the model as it is executed: binary32
arithmetic is opaque to them (they never compute with a float), so they cover every rounding behaviour.

* (a) `kalignRun_integrity` — C01 for the composed model, no hypothesis besides `kalignRun … = .ok rows`.
* (b) `kalignRun_codes_only`, `kalignRun_case_invariant`, `kalignRun_TU_invariant` — C14.
* (c) `kalignRun_order_independent` — C03 with the guide tree (UPGMA and bisecting k-means) inside the pipeline.
-/
namespace Kalign.Pipeline
open Kalign List

/-! ## (a) integrity -/

/-- C01 for the composed model with gapped rows (`none` = gap): a successful run returns one row per non-empty
input, in input order, under its name; removing the gaps gives back the residues; all rows have one length.
The premise of `C01_merge_integrity` (valid column codes at every merge) is enforced by the run-time monitor
of `mergeNodes`, so no further hypothesis is needed. -/
theorem kalignRunWith_integrity (det : List Nat → Bio) (avx : Bool) (inp : List InSeq) (type : Int)
    (gpo gpe tgpe : Float32) (out : List (Name × GRow))
    (h : kalignRunWith det avx inp type gpo gpe tgpe = .ok out) :
    out.map (·.1) = (inp.filter fun x => x.seq.length ≠ 0).map (·.name) ∧
    out.map (fun x => degap x.2) = (inp.filter fun x => x.seq.length ≠ 0).map (·.seq) ∧
    ∃ L, ∀ x ∈ out, x.2.length = L := by
  unfold kalignRunWith at h
  split at h
  · cases h
  · simp only at h
    split at h
    · cases h
    · rename_i c hc
      split at h
      · cases h
      · rename_i rows hrows
        simp only [Except.ok.injEq] at h
        subst h
        unfold canon at hc
        cases hE : essentialInputCheck inp with
        | none => rw [hE] at hc; cases hc
        | some E =>
          rw [hE] at hc
          simp only [Option.map_some, Option.some.injEq] at hc
          subst hc
          obtain ⟨hl, L, hL⟩ := stagesG_spec hrows
          have hperm : (sortLenName E).Perm E := mergeSort_perm E leLenName
          have hlen : rows.length = E.length := by
            rw [hl]; simp [view, hperm.length_eq]
          have hfst := sortRank_zip_fst E (essentialInputCheck_ranks inp E hE) rows hlen
          have hview := essentialInputCheck_view inp E hE
          -- every (sequence, row) pair of the output satisfies the row facts
          have hpair : ∀ z ∈ sortRankBy (fun x : RSeq × GRow => x.1.rank) ((sortLenName E).zip rows),
              degap z.2 = z.1.seq ∧ z.2.length = L := by
            intro z hz
            obtain ⟨i, h1, h2, rfl⟩ := mem_sortRank_zip hz
            have := hL i (by simpa [view] using h1) h2
            simpa [view] using this
          have hnames : E.map (·.name) = (inp.filter fun x => x.seq.length ≠ 0).map (·.name) := by
            have := congrArg (fun l => l.map (·.1)) hview
            simpa [view, keptView, map_map, Function.comp_def] using this
          have hseqs : E.map (·.seq) = (inp.filter fun x => x.seq.length ≠ 0).map (·.seq) := by
            have := congrArg (fun l => l.map (·.2)) hview
            simpa [view, keptView, map_map, Function.comp_def] using this
          unfold finish
          refine ⟨?_, ?_, L, ?_⟩
          · rw [map_map]
            have : ((fun x : Name × GRow => x.1) ∘ fun x : RSeq × GRow => (x.1.name, x.2))
                = (fun x : RSeq => x.name) ∘ (fun x : RSeq × GRow => x.1) := rfl
            rw [this, ← map_map, hfst, hnames]
          · have e := congrArg (fun l => l.map (·.seq)) hfst
            simp only [map_map] at e
            rw [map_map, ← hseqs, ← e]
            apply map_congr_left
            intro z hz
            exact (hpair z hz).1
          · intro x hx
            obtain ⟨z, hz, rfl⟩ := mem_map.1 hx
            exact (hpair z hz).2

theorem length_render (r : GRow) : (render r).length = r.length := by simp [render]

/-- the characters of a rendered row that are not `'-'` are the residues, for residues free of `'-'` -/
theorem filter_render (r : GRow) (hr : ∀ c ∈ degap r, c ≠ '-') :
    (render r).filter (· ≠ '-') = degap r := by
  induction r with
  | nil => rfl
  | cons x r ih =>
    cases x with
    | none =>
      have : degap (none :: r) = degap r := by simp [degap]
      rw [this] at hr ⊢
      simp only [render, map_cons] at ih ⊢
      rw [filter_cons_of_neg (by simp)]
      exact ih hr
    | some c =>
      have hd : degap (some c :: r) = c :: degap r := by simp [degap]
      rw [hd] at hr ⊢
      simp only [render, map_cons] at ih ⊢
      rw [filter_cons_of_pos (by simpa using hr c (by simp))]
      rw [ih (fun d hd => hr d (by simp [hd]))]

/-- **(a) `kalignRun_integrity`** (C01 for `kalign_run` as executed): if the run succeeds, the rows are those of
the non-empty inputs in input order under their names, all of one length, and they are the renderings
(`'-'` for a gap) of gapped rows that reproduce the residues exactly. -/
theorem kalignRun_integrity (inp : List InSeq) (type : Int) (gpo gpe tgpe : Float32) (rows : List (Name × Row))
    (h : kalignRun inp type gpo gpe tgpe = .ok rows) :
    rows.map (·.1) = (inp.filter fun x => x.seq.length ≠ 0).map (·.name) ∧
    (∃ L, ∀ x ∈ rows, x.2.length = L) ∧
    ∃ grows : List GRow, rows.map (·.2) = grows.map render ∧
      grows.map degap = (inp.filter fun x => x.seq.length ≠ 0).map (·.seq) := by
  unfold kalignRun at h
  cases hg : kalignRunG inp type gpo gpe tgpe with
  | error e => rw [hg] at h; cases h
  | ok out =>
    rw [hg] at h
    simp only [Except.map, Except.ok.injEq] at h
    subst h
    obtain ⟨h1, h2, L, h3⟩ := kalignRunWith_integrity detectF true inp type gpo gpe tgpe out hg
    refine ⟨by simpa [map_map, Function.comp_def] using h1, ⟨L, ?_⟩, out.map (·.2), by simp [map_map, Function.comp_def], ?_⟩
    · intro x hx
      obtain ⟨z, hz, rfl⟩ := mem_map.1 hx
      simpa [length_render] using h3 z hz
    · simpa [map_map, Function.comp_def] using h2

/-- the same in the form "`degap row = residues`" on the printed characters, when no input residue is the
character `'-'` itself (the array API accepts any byte as a residue) -/
theorem kalignRun_integrity_chars (inp : List InSeq) (type : Int) (gpo gpe tgpe : Float32) (rows : List (Name × Row))
    (hdash : ∀ x ∈ inp, ∀ c ∈ x.seq, c ≠ '-')
    (h : kalignRun inp type gpo gpe tgpe = .ok rows) :
    rows.map (fun x => (x.1, x.2.filter (· ≠ '-'))) =
      (inp.filter fun x => x.seq.length ≠ 0).map fun x => (x.name, x.seq) := by
  obtain ⟨h1, _, grows, h3, h4⟩ := kalignRun_integrity inp type gpo gpe tgpe rows h
  have key : rows.map (fun x => x.2.filter (· ≠ '-')) = (inp.filter fun x => x.seq.length ≠ 0).map (·.seq) := by
    rw [← h4]
    have : rows.map (fun x => x.2.filter (· ≠ '-')) = (rows.map (·.2)).map (fun r => r.filter (· ≠ '-')) := by
      rw [map_map]; rfl
    rw [this, h3, map_map]
    apply map_congr_left
    intro g hg
    apply filter_render
    intro c hc
    have hmem : degap g ∈ grows.map degap := mem_map_of_mem hg
    rw [h4] at hmem
    obtain ⟨x, hx, hxe⟩ := mem_map.1 hmem
    exact hdash x (mem_filter.1 hx).1 c (by rw [hxe]; exact hc)
  rw [← zip_map', h1, key, zip_map']

/-! ## the guide tree inside the pipeline is the model of Props/C03Kmeans.lean -/

/-- the task table `build_tree_kmeans` + `sort_tasks` hand to `create_msa_tree` is the sorted task list of the tree
`Kmeans.bisectingKmeans` builds from the anchor distance matrix, with the UPGMA tree of Model/Tree.lean as the
`< 100` branch (`smallOr`: where that branch faults the pipeline fails instead).  Hence `bisectingKmeans_leaves`,
`bisectingKmeans_fuel`, `kmeans_round_order_irrelevant` … of Props/C03Kmeans.lean are statements about the tree
`kalignRun` uses. -/
theorem buildTasks_is_bisectingKmeans (avx : Bool) (codes : Array (List Nat)) (tasks : Array (Nat × Nat × Nat))
    (h : buildTasks avx codes = .ok tasks) :
    ∃ anchors dm t, Kmeans.pickAnchors (codes.toList.map List.length) = some anchors ∧ anchorMatrix codes anchors = some dm ∧
      Kmeans.bisectingKmeans avx dm anchors.length (smallOr (smallTree codes)) (List.range codes.size) = .ok t ∧
      tasks = (Kmeans.sortTasks (Kmeans.treeTasks t codes.size)).toArray := by
  unfold buildTasks at h
  simp only at h
  cases ha : Kmeans.pickAnchors (codes.toList.map List.length) with
  | none => rw [ha] at h; cases h
  | some anchors =>
    rw [ha] at h
    simp only at h
    cases hd : anchorMatrix codes anchors with
    | none => rw [hd] at h; cases h
    | some dm =>
      rw [hd] at h
      simp only at h
      cases hb : bisectO avx dm anchors.length (smallTree codes) codes.size (List.range codes.size) with
      | error e => rw [hb] at h; cases e <;> cases h
      | ok t =>
        rw [hb] at h
        simp only [Except.ok.injEq] at h
        refine ⟨anchors, dm, t, rfl, hd, ?_, h.symm⟩
        have := bisectO_ok_bisect avx dm anchors.length (smallTree codes) _ _ t hb
        unfold Kmeans.bisectingKmeans
        rw [length_range]
        exact this

/-! ## (b) only names, lengths, the detected kind and the internal codes matter -/

/-- what the run can see of an input sequence once the kind of the input (`bio`) is fixed: its name and its
internal codes in the two alphabets used (`convert`, Model/Alphabet.lean); the length is the length of either
code list -/
def codeKey (bio : Bio) (x : InSeq) : Name × List Int × List Int :=
  (x.name, convert (treeAlphabet bio) (bytesOf x.seq), convert (alnAlphabet bio) (bytesOf x.seq))

/-- the result with every row reduced to its gap pattern -/
def gapPatterns (out : List (Name × GRow)) : List (Name × List Bool) := out.map fun x => (x.1, gapPattern x.2)

/-- (b), general form: any detection function, either `edist` variant -/
theorem kalignRunWith_codes_only (det : List Nat → Bio) (avx : Bool) (inp₁ inp₂ : List InSeq) (type : Int)
    (gpo gpe tgpe : Float32)
    (hbad : hasBadByte inp₁ = hasBadByte inp₂) (hbio : bioOf det inp₁ = bioOf det inp₂)
    (hkey : inp₁.map (codeKey (bioOf det inp₁)) = inp₂.map (codeKey (bioOf det inp₁))) :
    (kalignRunWith det avx inp₁ type gpo gpe tgpe).map gapPatterns =
    (kalignRunWith det avx inp₂ type gpo gpe tgpe).map gapPatterns := by
  unfold kalignRunWith
  rw [← hbad, ← hbio]
  by_cases hb : hasBadByte inp₁ = true
  · simp only [hb, if_true]
  · simp only [hb, Bool.false_eq_true, if_false]
    generalize bioOf det inp₁ = bio at hkey ⊢
    have hc := canon_key_congr (codeKey bio) (fun k => k.1) (fun k => k.2.1.length) (fun _ => rfl)
      (fun x => by simp [codeKey, convert, bytesOf]) hkey
    cases h₁ : canon inp₁ with
    | none =>
      rw [h₁] at hc
      cases h₂ : canon inp₂ with
      | none => rfl
      | some _ => rw [h₂] at hc; cases hc
    | some c₁ =>
      rw [h₁] at hc
      cases h₂ : canon inp₂ with
      | none => rw [h₂] at hc; cases hc
      | some c₂ =>
        rw [h₂] at hc
        simp only [Option.map_some, Option.some.injEq] at hc
        have hnr : c₁.map (fun x => (x.name, x.rank)) = c₂.map (fun x => (x.name, x.rank)) := by
          have := congrArg (fun l => l.map fun k : (Name × List Int × List Int) × Nat => (k.1.1, k.2)) hc
          simpa [keyR, codeKey, map_map, Function.comp_def] using this
        have ht : (view c₁).map (fun v => convertN (treeAlphabet bio) (bytesOf v.2)) =
            (view c₂).map (fun v => convertN (treeAlphabet bio) (bytesOf v.2)) := by
          have := congrArg (fun l => l.map fun k : (Name × List Int × List Int) × Nat => k.1.2.1.map toU8) hc
          simpa [view, keyR, codeKey, convertN, map_map, Function.comp_def] using this
        have ha : (view c₁).map (fun v => convertN (alnAlphabet bio) (bytesOf v.2)) =
            (view c₂).map (fun v => convertN (alnAlphabet bio) (bytesOf v.2)) := by
          have := congrArg (fun l => l.map fun k : (Name × List Int × List Int) × Nat => k.1.2.2.map toU8) hc
          simpa [view, keyR, codeKey, convertN, map_map, Function.comp_def] using this
        have hp := stagesG_pattern avx bio type gpo gpe tgpe (view c₁) (view c₂) ht ha
        simp only
        cases s₁ : stagesG avx bio type gpo gpe tgpe (view c₁) with
        | error e₁ =>
          rw [s₁] at hp
          cases s₂ : stagesG avx bio type gpo gpe tgpe (view c₂) with
          | error e₂ => rw [s₂] at hp; simpa [Except.map] using hp
          | ok _ => rw [s₂] at hp; simp [Except.map] at hp
        | ok rows₁ =>
          rw [s₁] at hp
          cases s₂ : stagesG avx bio type gpo gpe tgpe (view c₂) with
          | error _ => rw [s₂] at hp; simp [Except.map] at hp
          | ok rows₂ =>
            rw [s₂] at hp
            simp only [Except.map, Except.ok.injEq] at hp ⊢
            unfold gapPatterns
            rw [finish_map, finish_map, hp]
            exact finish_congr _ hnr

/-- **(b) `kalignRun_codes_only`** (C14 for the composed model): two inputs with the same names, the same detected
kind and the same internal codes (hence the same lengths) in the alphabets the run uses give the same result up to
the letters: the same error, or the same gap pattern under every name. -/
theorem kalignRun_codes_only (inp₁ inp₂ : List InSeq) (type : Int) (gpo gpe tgpe : Float32)
    (hbad : hasBadByte inp₁ = hasBadByte inp₂) (hbio : bioOf detectF inp₁ = bioOf detectF inp₂)
    (hkey : inp₁.map (codeKey (bioOf detectF inp₁)) = inp₂.map (codeKey (bioOf detectF inp₁))) :
    (kalignRunG inp₁ type gpo gpe tgpe).map gapPatterns = (kalignRunG inp₂ type gpo gpe tgpe).map gapPatterns :=
  kalignRunWith_codes_only detectF true inp₁ inp₂ type gpo gpe tgpe hbad hbio hkey

/-! ### respellings: letter case, T ↔ U -/

/-- the input with every residue character replaced by `g` -/
def respell (g : Char → Char) (inp : List InSeq) : List InSeq := inp.map fun x => { x with seq := x.seq.map g }

theorem bytesOf_map (g : Char → Char) (f : Nat → Nat) (hg : ∀ c, (g c).toNat = f c.toNat) (s : List Char) :
    bytesOf (s.map g) = (bytesOf s).map f := by
  simp [bytesOf, map_map, Function.comp_def, hg]

theorem hasBadByte_respell (g : Char → Char) (f : Nat → Nat) (hg : ∀ c, (g c).toNat = f c.toNat)
    (hbig : ∀ c, 128 ≤ f c ↔ 128 ≤ c) (inp : List InSeq) : hasBadByte (respell g inp) = hasBadByte inp := by
  simp only [hasBadByte, respell, any_map, Function.comp_def, hg, hbig]

/-- the byte lists of the input (argument of `Kalign.histOf`, Props/C13.lean) -/
def byteSeqs (inp : List InSeq) : List (List Nat) := inp.map fun x => bytesOf x.seq

theorem byteSeqs_respell (g : Char → Char) (f : Nat → Nat) (hg : ∀ c, (g c).toNat = f c.toNat) (inp : List InSeq) :
    byteSeqs (respell g inp) = (byteSeqs inp).map (·.map f) := by
  simp [byteSeqs, respell, map_map, Function.comp_def, bytesOf_map g f hg]

theorem bioOf_eq (det : List Nat → Bio) (inp : List InSeq) : bioOf det inp = det (histOf (byteSeqs inp)) := rfl

theorem bytes_lt_of_not_bad {inp : List InSeq} (h : hasBadByte inp = false) : ∀ s ∈ byteSeqs inp, ∀ c ∈ s, c < 128 := by
  intro s hs c hc
  simp only [byteSeqs, mem_map] at hs
  obtain ⟨x, hx, rfl⟩ := hs
  simp only [bytesOf, mem_map] at hc
  obtain ⟨ch, hch, rfl⟩ := hc
  simp only [hasBadByte, any_eq_false] at h
  have h' := h x hx
  simp only [Bool.not_eq_true, any_eq_false, decide_eq_true_eq] at h'
  have := h' ch hch
  omega

/-- general form: a bytewise respelling `g` (acting as `f` on byte values) that keeps bytes below 128 below 128,
does not change the detected kind and does not change the internal codes in the alphabets used, does not change
the result up to the letters -/
theorem kalignRunWith_respell_invariant (det : List Nat → Bio) (avx : Bool) (g : Char → Char) (f : Nat → Nat)
    (hg : ∀ c, (g c).toNat = f c.toNat) (hbig : ∀ c, 128 ≤ f c ↔ 128 ≤ c)
    (inp : List InSeq) (type : Int) (gpo gpe tgpe : Float32)
    (hdet : hasBadByte inp = false → bioOf det (respell g inp) = bioOf det inp)
    (hcodes : ∀ c, c < 128 → codeOf (treeAlphabet (bioOf det inp)) (f c) = codeOf (treeAlphabet (bioOf det inp)) c ∧
      codeOf (alnAlphabet (bioOf det inp)) (f c) = codeOf (alnAlphabet (bioOf det inp)) c) :
    (kalignRunWith det avx (respell g inp) type gpo gpe tgpe).map gapPatterns =
    (kalignRunWith det avx inp type gpo gpe tgpe).map gapPatterns := by
  have hbad := hasBadByte_respell g f hg hbig inp
  cases hb : hasBadByte inp with
  | true =>
    unfold kalignRunWith
    rw [hbad, hb]
    rfl
  | false =>
    symm
    apply kalignRunWith_codes_only det avx inp (respell g inp) type gpo gpe tgpe hbad.symm (hdet hb).symm
    unfold respell
    rw [map_map]
    apply map_congr_left
    intro x hx
    have hlt : ∀ c ∈ bytesOf x.seq, c < 128 := bytes_lt_of_not_bad hb _ (mem_map_of_mem hx)
    simp only [Function.comp_def, codeKey, bytesOf_map g f hg]
    rw [C14_convert_respell_invariant _ _ f (fun c hc => (hcodes c (hlt c hc)).1),
      C14_convert_respell_invariant _ _ f (fun c hc => (hcodes c (hlt c hc)).2)]

theorem treeAlphabet_used (b : Bio) : treeAlphabet b ∈ usedAlphabets := by cases b <;> decide
theorem alnAlphabet_used (b : Bio) : alnAlphabet b ∈ usedAlphabets := by cases b <;> decide

theorem toggleCase_big (c : Nat) : 128 ≤ toggleCase c ↔ 128 ≤ c := by
  unfold toggleCase
  split
  · rename_i h; simp only [Bool.and_eq_true, decide_eq_true_eq] at h; omega
  · split
    · rename_i h; simp only [Bool.and_eq_true, decide_eq_true_eq] at h; omega
    · rfl

theorem tToU_big (c : Nat) : 128 ≤ tToU c ↔ 128 ≤ c := by
  unfold tToU
  split
  · omega
  · split <;> omega

/-- a character map that toggles the case of every ASCII letter -/
def toggleChar (c : Char) : Char := Char.ofNat (toggleCase c.toNat)
/-- `T → U`, `t → u` -/
def tToUChar (c : Char) : Char := Char.ofNat (tToU c.toNat)

theorem toNat_ofNat_of_valid (n : Nat) (hv : n.isValidChar) : (Char.ofNat n).toNat = n := by
  unfold Char.ofNat
  rw [dif_pos hv]
  simp [Char.ofNatAux, Char.toNat, UInt32.toNat]

theorem toggleChar_toNat (c : Char) : (toggleChar c).toNat = toggleCase c.toNat := by
  unfold toggleChar
  apply toNat_ofNat_of_valid
  have hv : c.toNat.isValidChar := c.valid
  unfold toggleCase
  split
  · rename_i h; simp only [Bool.and_eq_true, decide_eq_true_eq] at h
    unfold Nat.isValidChar; omega
  · split
    · rename_i h; simp only [Bool.and_eq_true, decide_eq_true_eq] at h
      unfold Nat.isValidChar; omega
    · exact hv

theorem tToUChar_toNat (c : Char) : (tToUChar c).toNat = tToU c.toNat := by
  unfold tToUChar
  apply toNat_ofNat_of_valid
  have hv : c.toNat.isValidChar := c.valid
  unfold tToU
  split
  · unfold Nat.isValidChar; omega
  · split
    · unfold Nat.isValidChar; omega
    · exact hv

/-- case invariance, general detection function: needs that the detection decision is the same for the respelled
input (`hdet`).  For `g` one may take `toggleChar` (`toggleChar_toNat`) or any other map acting as `toggleCase`. -/
theorem kalignRunWith_case_invariant (det : List Nat → Bio) (avx : Bool) (g : Char → Char)
    (hg : ∀ c, (g c).toNat = toggleCase c.toNat) (inp : List InSeq) (type : Int) (gpo gpe tgpe : Float32)
    (hdet : hasBadByte inp = false → bioOf det (respell g inp) = bioOf det inp) :
    (kalignRunWith det avx (respell g inp) type gpo gpe tgpe).map gapPatterns =
    (kalignRunWith det avx inp type gpo gpe tgpe).map gapPatterns := by
  apply kalignRunWith_respell_invariant det avx g toggleCase hg toggleCase_big inp type gpo gpe tgpe hdet
  intro c hc
  have hr : c ∈ List.range 128 := mem_range.2 hc
  exact ⟨C14_codes_case_invariant _ (treeAlphabet_used _) c hr, C14_codes_case_invariant _ (alnAlphabet_used _) c hr⟩

/-- the exact detector decides the same for a respelled input (Props/C14 `C14_detect_respell_invariant`) -/
theorem bioOf_exact_respell (g : Char → Char) (f : Nat → Nat) (hg : ∀ c, (g c).toNat = f c.toNat)
    (hf : ∀ c, c < 128 → f c < 128 ∧ sameClass c (f c) = true) (inp : List InSeq) (hb : hasBadByte inp = false) :
    bioOf detectExact (respell g inp) = bioOf detectExact inp := by
  rw [bioOf_eq, bioOf_eq, byteSeqs_respell g f hg]
  exact C14_detect_respell_invariant _ f hf (bytes_lt_of_not_bad hb)

/-- **`kalignRun_case_invariant`** with the exact-arithmetic reading of `detect_alphabet` (`detectExact`, tied to the
double-precision code by measurement, Props/C13): toggling the case of every letter changes nothing but the
letters.  No hypothesis. -/
theorem kalignRunExact_case_invariant (avx : Bool) (inp : List InSeq) (type : Int) (gpo gpe tgpe : Float32) :
    (kalignRunWith detectExact avx (respell toggleChar inp) type gpo gpe tgpe).map gapPatterns =
    (kalignRunWith detectExact avx inp type gpo gpe tgpe).map gapPatterns :=
  kalignRunWith_case_invariant detectExact avx toggleChar toggleChar_toNat inp type gpo gpe tgpe
    (bioOf_exact_respell toggleChar toggleCase toggleChar_toNat C14_toggleCase_respell inp)

/- Full statement wanted (not provable in Lean: `detectF` computes with opaque binary64 operations; the sums
   `Σ log p(c) · n_c` are accumulated in byte order, which a case change permutes):

     theorem kalignRun_case_invariant (inp) (type) (gpo gpe tgpe) :
       (kalignRunG (respell toggleChar inp) type gpo gpe tgpe).map gapPatterns =
       (kalignRunG inp type gpo gpe tgpe).map gapPatterns
-/
/-- **`kalignRun_case_invariant`, partial**: for the model as executed (`detectF`), given that the double-precision
detection decides the same for the respelled input (`hdet`; measured, never seen to fail: A-float of C13) -/
theorem kalignRun_case_invariant_partial (inp : List InSeq) (type : Int) (gpo gpe tgpe : Float32)
    (hdet : hasBadByte inp = false → bioOf detectF (respell toggleChar inp) = bioOf detectF inp) :
    (kalignRunG (respell toggleChar inp) type gpo gpe tgpe).map gapPatterns =
    (kalignRunG inp type gpo gpe tgpe).map gapPatterns :=
  kalignRunWith_case_invariant detectF true toggleChar toggleChar_toNat inp type gpo gpe tgpe hdet

/-- T ↔ U invariance for inputs detected as nucleotide, general detection function -/
theorem kalignRunWith_TU_invariant (det : List Nat → Bio) (avx : Bool) (g : Char → Char)
    (hg : ∀ c, (g c).toNat = tToU c.toNat) (inp : List InSeq) (type : Int) (gpo gpe tgpe : Float32)
    (hdna : bioOf det inp = .dna)
    (hdet : hasBadByte inp = false → bioOf det (respell g inp) = bioOf det inp) :
    (kalignRunWith det avx (respell g inp) type gpo gpe tgpe).map gapPatterns =
    (kalignRunWith det avx inp type gpo gpe tgpe).map gapPatterns := by
  apply kalignRunWith_respell_invariant det avx g tToU hg tToU_big inp type gpo gpe tgpe hdet
  intro c _
  rw [hdna]
  have h5 : codeOf 5 (tToU c) = codeOf 5 c := by
    unfold tToU
    split
    · rename_i h; subst h; exact C14_codes_TU.1
    · split
      · rename_i h; subst h; exact C14_codes_TU.2.1
      · rfl
  exact ⟨h5, h5⟩

/-- **`kalignRun_TU_invariant`** with the exact detector: for an input detected as nucleotide, writing U for T
changes nothing but the letters.  No further hypothesis. -/
theorem kalignRunExact_TU_invariant (avx : Bool) (inp : List InSeq) (type : Int) (gpo gpe tgpe : Float32)
    (hdna : bioOf detectExact inp = .dna) :
    (kalignRunWith detectExact avx (respell tToUChar inp) type gpo gpe tgpe).map gapPatterns =
    (kalignRunWith detectExact avx inp type gpo gpe tgpe).map gapPatterns :=
  kalignRunWith_TU_invariant detectExact avx tToUChar tToUChar_toNat inp type gpo gpe tgpe hdna
    (bioOf_exact_respell tToUChar tToU tToUChar_toNat C14_tToU_respell inp)

/- Full statement wanted (see `kalignRun_case_invariant` above for why it is not provable):

     theorem kalignRun_TU_invariant (inp) (type) (gpo gpe tgpe) (hdna : bioOf detectF inp = .dna) :
       (kalignRunG (respell tToUChar inp) type gpo gpe tgpe).map gapPatterns =
       (kalignRunG inp type gpo gpe tgpe).map gapPatterns
-/
/-- **`kalignRun_TU_invariant`, partial**: the model as executed, given the invariance of the double-precision
detection decision (`hdet`) -/
theorem kalignRun_TU_invariant_partial (inp : List InSeq) (type : Int) (gpo gpe tgpe : Float32)
    (hdna : bioOf detectF inp = .dna)
    (hdet : hasBadByte inp = false → bioOf detectF (respell tToUChar inp) = bioOf detectF inp) :
    (kalignRunG (respell tToUChar inp) type gpo gpe tgpe).map gapPatterns =
    (kalignRunG inp type gpo gpe tgpe).map gapPatterns :=
  kalignRunWith_TU_invariant detectF true tToUChar tToUChar_toNat inp type gpo gpe tgpe hdna hdet

/-! ### non-vacuity of the hypotheses of (b) -/

/-- "ACGT", "acgtn" (names `a`, `b`) and the same input spelled with U -/
def exNuc : List InSeq := [⟨[0x61], "ACGT".toList⟩, ⟨[0x62], "acgtn".toList⟩]

example : respell tToUChar exNuc = [⟨[0x61], "ACGU".toList⟩, ⟨[0x62], "acgun".toList⟩] := by decide +kernel
example : respell toggleChar exNuc = [⟨[0x61], "acgt".toList⟩, ⟨[0x62], "ACGTN".toList⟩] := by decide +kernel
-- the hypotheses of `kalignRunWith_codes_only` (exact detector) hold for a non-trivial pair of inputs
example : hasBadByte exNuc = hasBadByte (respell tToUChar exNuc) ∧
    bioOf detectExact exNuc = bioOf detectExact (respell tToUChar exNuc) ∧
    exNuc.map (codeKey (bioOf detectExact exNuc)) = (respell tToUChar exNuc).map (codeKey (bioOf detectExact exNuc)) ∧
    exNuc ≠ respell tToUChar exNuc := by decide +kernel
-- the hypothesis `hdna` of `kalignRunExact_TU_invariant`
example : bioOf detectExact exNuc = .dna := by decide +kernel
example (avx : Bool) (type : Int) (gpo gpe tgpe : Float32) :
    (kalignRunWith detectExact avx (respell tToUChar exNuc) type gpo gpe tgpe).map gapPatterns =
    (kalignRunWith detectExact avx exNuc type gpo gpe tgpe).map gapPatterns :=
  kalignRunExact_TU_invariant avx exNuc type gpo gpe tgpe (by decide +kernel)
/- The hypothesis `hdet` of the two `_partial` theorems is a statement about binary64 arithmetic and cannot be
   evaluated in the kernel; on this instance `#eval bioOf detectF (respell tToUChar exNuc) == bioOf detectF exNuc`
   (and the same for `toggleChar`) print `true`; it is what the measurement A-float of C13 samples. -/

/-! ## (c) order independence -/

/-- on success `kalignRun` is `Canon.run` of the composed stages 3-7 (so `Props/C03.lean` applies to it) -/
theorem kalignRun_is_run (inp : List InSeq) (type : Int) (gpo gpe tgpe : Float32) (out : List (Name × Row))
    (h : kalignRun inp type gpo gpe tgpe = .ok out) :
    ∃ l, run (pipeRows true (bioOf detectF inp) type gpo gpe tgpe) inp = some l ∧
      out = l.map fun x => (x.1.name, x.2) := by
  rw [kalignRun_eq] at h
  split at h
  · cases h
  · unfold run
    cases hc : canon inp with
    | none => rw [hc] at h; cases h
    | some c =>
      rw [hc] at h
      simp only at h
      cases hs : stagesG true (bioOf detectF inp) type gpo gpe tgpe (view c) with
      | error e => rw [hs] at h; cases h
      | ok rows =>
        rw [hs] at h
        simp only [Except.ok.injEq] at h
        refine ⟨_, rfl, ?_⟩
        rw [← h]
        simp only [pipeRows, hs, finish]

/-- **(c) `kalignRun_order_independent`** (C03 for the composed pipeline — guide tree included: UPGMA below 100
sequences, bisecting k-means from 100 on, both inside `stagesG`): if the same named sequences are supplied in a
different order, the run fails with the same error or succeeds with the same row under every name.
Premises: the property's own (names pairwise distinct) and NUL-freeness (names are C strings). -/
theorem kalignRun_order_independent {inp inp' : List InSeq} (hp : inp'.Perm inp)
    (hnames : (inp.map (·.name)).Nodup) (hnul : ∀ x ∈ inp, NulFree x.name)
    (type : Int) (gpo gpe tgpe : Float32) :
    (kalignRun inp' type gpo gpe tgpe).map lookup = (kalignRun inp type gpo gpe tgpe).map lookup := by
  have hoi := order_independent (pipeRows true (bioOf detectF inp) type gpo gpe tgpe) hp hnames hnul
  have hc := canon_perm_invariant_of_distinct_names hp hnul hnames
  rw [kalignRun_eq, kalignRun_eq, hasBadByte_perm hp, bioOf_perm detectF hp]
  split
  · rfl
  · unfold run at hoi
    cases h : canon inp with
    | none =>
      rw [h] at hc
      cases h' : canon inp' with
      | none => rfl
      | some _ => rw [h'] at hc; cases hc
    | some c =>
      rw [h] at hc hoi
      cases h' : canon inp' with
      | none => rw [h'] at hc; cases hc
      | some c' =>
        rw [h'] at hc hoi
        simp only [Option.map_some, Option.some.injEq] at hc
        simp only [Option.map_some] at hoi
        simp only
        rw [hc]
        cases hs : stagesG true (bioOf detectF inp) type gpo gpe tgpe (view c) with
        | error e => rfl
        | ok rows =>
          simp only [Except.map, Except.ok.injEq, finish]
          rw [lookup_names, lookup_names]
          have e : pipeRows true (bioOf detectF inp) type gpo gpe tgpe (view c) = rows.map render := by
            simp only [pipeRows, hs]
          rw [hc, e] at hoi
          exact hoi

/-- the same, with the premise spelled "names pairwise distinct" -/
theorem kalignRun_order_independent_of_distinct_names {inp inp' : List InSeq} (hp : inp'.Perm inp)
    (hnul : ∀ x ∈ inp, NulFree x.name) (hnames : inp.Pairwise fun a b => a.name ≠ b.name)
    (type : Int) (gpo gpe tgpe : Float32) :
    (kalignRun inp' type gpo gpe tgpe).map lookup = (kalignRun inp type gpo gpe tgpe).map lookup :=
  kalignRun_order_independent hp (by rw [Nodup, pairwise_map]; exact hnames) hnul type gpo gpe tgpe

-- non-vacuity: the premises hold for `Kalign.exInp'`, `Kalign.exInp` of Props/C03.lean (five sequences, one empty,
-- equal lengths with names that are prefixes of each other)
example (type : Int) (gpo gpe tgpe : Float32) :
    (kalignRun exInp' type gpo gpe tgpe).map lookup = (kalignRun exInp type gpo gpe tgpe).map lookup :=
  kalignRun_order_independent (by decide) (by decide) (by decide) type gpo gpe tgpe

end Kalign.Pipeline
