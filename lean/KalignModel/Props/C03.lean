import KalignModel.Lemmas.Canon
import KalignModel.Gen.Omp
import KalignModel.Props.C03Kmeans
/-!
# C03 — the result does not depend on the order of the input

"If the same named sequences are supplied in a different order, the result is the same alignment
with its rows permuted accordingly: the same residues share a column.  This holds whenever the
sequence names are pairwise distinct."

Model (Model/Canon.lean): `run pipeline inp` = essential check (ranks, empties dropped) →
`msa_sort_len_name` → `pipeline` (stages 3-7 of `kalign_run` as an arbitrary function of the
canonical names and residues: those stages never read `rank`, frame fact `Gen.rankUses`, pinned by
`rank_use_sites`) → rows attached by position → `msa_sort_rank`.

The comparator of `msa_sort_len_name` is `strcmp` on the full names (commit 15117bc of the C
sources; it used `strncmp(·,·,256)` before), so the sort keys are `(length, name)` and the
property's own premise — names pairwise distinct — makes them pairwise distinct.
`common_prefix_distinct_keys` / `common_prefix_example` document the repaired defect: two names
with a common 256-byte prefix now have distinct keys and a canonical order that does not depend on
the input order.
-/
namespace Kalign
open List

/-- the sort key of an input sequence: (length, name) -/
def InSeq.key (x : InSeq) : Nat × Name := lenNameKey x.seq.length x.name

/-- **P**: for pairwise distinct `(len, name)` keys the sorted list is the same for every
permutation of the input (any payload type). -/
theorem sort_unique_of_distinct_keys {α : Type} (len : α → Nat) (name : α → Name) {l₁ l₂ : List α}
    (hp : l₁.Perm l₂) (hnul : ∀ x ∈ l₁, NulFree (name x))
    (hkeys : l₁.Pairwise fun a b => (len a, name a) ≠ (len b, name b)) :
    sortLenNameBy len name l₁ = sortLenNameBy len name l₂ :=
  sortLenNameBy_perm len name hp hnul hkeys

/-- the sort looks at names and residues only -/
theorem view_sortLenName (l : List RSeq) :
    view (sortLenName l) = sortLenNameBy (fun p : Name × List Char => p.2.length) (fun p => p.1) (view l) := by
  unfold view sortLenName sortLenNameBy
  exact map_mergeSort (fun a _ b _ => rfl)

/-- the canonical list, as the (name, residues) pairs the later stages see, is the same for every
order of the input -/
theorem canon_perm_invariant {inp inp' : List InSeq} (hp : inp'.Perm inp)
    (hnul : ∀ x ∈ inp, NulFree x.name) (hkeys : inp.Pairwise fun a b => a.key ≠ b.key) :
    (canon inp').map view = (canon inp).map view := by
  have hsome := essentialInputCheck_isSome inp
  have hsome' := essentialInputCheck_isSome inp'
  rw [hp.length_eq, (keptView_perm hp).length_eq, ← hsome] at hsome'
  unfold canon
  cases h : essentialInputCheck inp with
  | none =>
    rw [h] at hsome'
    cases h' : essentialInputCheck inp' with
    | none => rfl
    | some _ => rw [h'] at hsome'; cases hsome'
  | some L =>
    rw [h] at hsome'
    cases h' : essentialInputCheck inp' with
    | none => rw [h'] at hsome'; cases hsome'
    | some L' =>
      simp only [Option.map_some, Option.some.injEq]
      rw [view_sortLenName, view_sortLenName, essentialInputCheck_view _ _ h, essentialInputCheck_view _ _ h']
      apply (sortLenNameBy_perm _ _ (keptView_perm hp).symm _ _).symm
      · intro x hx
        simp only [keptView, mem_map, mem_filter] at hx
        obtain ⟨y, ⟨hy, _⟩, rfl⟩ := hx
        exact hnul y hy
      · unfold keptView
        rw [pairwise_map]
        exact (hkeys.sublist filter_sublist).imp (fun h => h)

/-! ### lookup of the row printed under a name -/

/-- the (name, row) pairs of an output -/
def nameRows (l : List (RSeq × Row)) : List (Name × Row) := l.map fun x => (x.1.name, x.2)

theorem rowsByName_some (l : List (RSeq × Row)) (n : Name) :
    rowsByName (some l) n = ((nameRows l).find? fun x => x.1 = n).map (·.2) := by
  unfold rowsByName nameRows
  rw [find?_map]
  simp [Function.comp_def, Option.map_map]

theorem nameRows_zip (c : List RSeq) (rows : List Row) :
    nameRows (c.zip rows) = ((view c).map (·.1)).zip rows := by
  unfold nameRows view
  rw [map_map, zip_map_left]
  rfl

theorem map_fst_zip_sublist {β γ : Type} (l₁ : List β) (l₂ : List γ) :
    ((l₁.zip l₂).map (·.1)).Sublist l₁ := by
  induction l₁ generalizing l₂ with
  | nil => simp
  | cons a l₁ ih =>
    cases l₂ with
    | nil => simp
    | cons b l₂ => simpa using ih l₂

/-- names of the canonical list are duplicate free when the input names are -/
theorem canon_names_nodup {inp : List InSeq} {c : List RSeq} (h : canon inp = some c)
    (hnames : (inp.map (·.name)).Nodup) : ((view c).map (·.1)).Nodup := by
  unfold canon at h
  cases h' : essentialInputCheck inp with
  | none => rw [h'] at h; cases h
  | some L =>
    rw [h'] at h
    simp only [Option.map_some, Option.some.injEq] at h
    subst h
    have hperm : (view (sortLenName L)).Perm (view L) := (mergeSort_perm L leLenName).map _
    rw [essentialInputCheck_view _ _ h'] at hperm
    refine ((hperm.map (·.1)).nodup_iff).mpr ?_
    unfold keptView
    rw [map_map]
    exact hnames.sublist (filter_sublist.map _)

/-- distinct names have distinct sort keys -/
theorem keys_distinct_of_names_distinct {inp : List InSeq} (hnames : (inp.map (·.name)).Nodup) :
    inp.Pairwise fun a b => a.key ≠ b.key := by
  rw [Nodup, pairwise_map] at hnames
  exact hnames.imp (fun h e => h (congrArg Prod.snd e))

/-- the canonical list under the property's premise -/
theorem canon_perm_invariant_of_distinct_names {inp inp' : List InSeq} (hp : inp'.Perm inp)
    (hnul : ∀ x ∈ inp, NulFree x.name) (hnames : (inp.map (·.name)).Nodup) :
    (canon inp').map view = (canon inp).map view :=
  canon_perm_invariant hp hnul (keys_distinct_of_names_distinct hnames)

/-- **C03** in the model: for ANY downstream pipeline that is a function of the canonical names
and residues, permuting the input leaves the row printed under every name unchanged (hence the
same residues share a column).  Premises: the property's own — names pairwise distinct — and
NUL-freeness (names are C strings). -/
theorem order_independent (pipeline : List (Name × List Char) → List Row)
    {inp inp' : List InSeq} (hp : inp'.Perm inp)
    (hnames : (inp.map (·.name)).Nodup) (hnul : ∀ x ∈ inp, NulFree x.name) :
    rowsByName (run pipeline inp') = rowsByName (run pipeline inp) := by
  funext n
  have hc := canon_perm_invariant hp hnul (keys_distinct_of_names_distinct hnames)
  have hnames' : (inp'.map (·.name)).Nodup := ((hp.map _).nodup_iff).mpr hnames
  unfold run
  cases h : canon inp with
  | none =>
    rw [h] at hc
    cases h' : canon inp' with
    | none => rfl
    | some _ => rw [h'] at hc; cases hc
  | some c =>
    rw [h] at hc
    cases h' : canon inp' with
    | none => rw [h'] at hc; cases hc
    | some c' =>
      rw [h'] at hc
      simp only [Option.map_some, Option.some.injEq] at hc
      simp only [Option.map_some, rowsByName_some]
      have key : ∀ (d : List RSeq), ((view d).map (·.1)).Nodup →
          (nameRows (sortRankBy (fun x : RSeq × Row => x.1.rank) (d.zip (pipeline (view d))))).find? (fun x => x.1 = n)
            = (((view d).map (·.1)).zip (pipeline (view d))).find? (fun x => x.1 = n) := by
        intro d hd
        rw [← nameRows_zip]
        have hperm : (nameRows (sortRankBy (fun x : RSeq × Row => x.1.rank) (d.zip (pipeline (view d))))).Perm
            (nameRows (d.zip (pipeline (view d)))) := (mergeSort_perm _ _).map _
        refine find?_perm_of_nodup_fst hperm ?_ n
        refine ((hperm.map (·.1)).nodup_iff).mpr ?_
        rw [nameRows_zip]
        exact hd.sublist (map_fst_zip_sublist _ _)
      rw [key c (canon_names_nodup h hnames), key c' (canon_names_nodup h' hnames'), hc]

/-- "with its rows permuted accordingly": the output lists the non-empty input sequences in input
order (whatever the canonical order was), provided the pipeline returns one row per sequence. -/
theorem run_restores_input_order (pipeline : List (Name × List Char) → List Row)
    (hlen : ∀ V, (pipeline V).length = V.length) (inp : List InSeq) (out : List (RSeq × Row))
    (h : run pipeline inp = some out) :
    out.map (·.1.name) = (inp.filter fun x => x.seq.length ≠ 0).map (·.name) := by
  unfold run canon at h
  cases hE : essentialInputCheck inp with
  | none => rw [hE] at h; cases h
  | some E =>
    rw [hE] at h
    simp only [Option.map_some, Option.some.injEq] at h
    subst h
    have hz : ((sortLenName E).zip (pipeline (view (sortLenName E)))).map (·.1) = sortLenName E := by
      apply map_fst_zip
      rw [hlen]; simp [view]
    have hmap : (sortRankBy (fun x : RSeq × Row => x.1.rank)
        ((sortLenName E).zip (pipeline (view (sortLenName E))))).map (·.1) = sortRankBy (·.rank) (sortLenName E) := by
      unfold sortRankBy
      rw [map_mergeSort (s := fun a b : RSeq => decide (a.rank ≤ b.rank)) (fun a _ b _ => rfl), hz]
    have hsorted : sortRankBy (·.rank) (sortLenName E) = E :=
      sortRankBy_eq_of_perm (mergeSort_perm E leLenName) (essentialInputCheck_ranks inp E hE)
    have hv := essentialInputCheck_view inp E hE
    have e : (sortRankBy (fun x : RSeq × Row => x.1.rank)
        ((sortLenName E).zip (pipeline (view (sortLenName E))))).map (·.1.name)
        = ((sortRankBy (fun x : RSeq × Row => x.1.rank)
        ((sortLenName E).zip (pipeline (view (sortLenName E))))).map (·.1)).map (·.name) := by
      rw [map_map]; rfl
    rw [e, hmap, hsorted]
    have : E.map (·.name) = (view E).map (·.1) := by simp [view, map_map, Function.comp_def]
    rw [this, hv]
    simp [keptView, map_map, Function.comp_def]

/-- the same, with the premise spelled "names pairwise distinct" -/
theorem order_independent_of_distinct_names (pipeline : List (Name × List Char) → List Row)
    {inp inp' : List InSeq} (hp : inp'.Perm inp) (hnul : ∀ x ∈ inp, NulFree x.name)
    (hnames : inp.Pairwise fun a b => a.name ≠ b.name) :
    rowsByName (run pipeline inp') = rowsByName (run pipeline inp) :=
  order_independent pipeline hp (by rw [Nodup, pairwise_map]; exact hnames) hnul

/-- frame fact (translator T4): the only reader of `->rank` is the comparator of
`msa_sort_rank`; the writers are allocation, the essential check and the two copy helpers.  A change
of this list in the C sources breaks the proof obligation. -/
theorem rank_use_sites : Gen.rankUses =
    ["msa_alloc.c:alloc_msa_seq:write", "msa_check.c:kalign_essential_input_check:write",
     "msa_op.c:msa_seq_cpy:write", "msa_op.c:kalign_arr_to_msa:write", "msa_sort.c:sort_by_rank:read"] := by
  decide

/-! ### the repaired defect: names with a common 256-byte prefix -/

theorem mergeSort_pair {α : Type} (le : α → α → Bool) (a b : α) :
    mergeSort [a, b] le = if le a b then [a, b] else [b, a] := by
  by_cases h : le a b <;> simp [mergeSort, MergeSort.Internal.splitInTwo, h]

/-- any two NUL-free names `p ++ x`, `p ++ y` with a common prefix `p` (of 256 bytes or any other
length) and `strcmp x y < 0`, on sequences of equal non-zero length: the keys are distinct, the
comparator sees past the prefix (`strcmp (p++x) (p++y) = strcmp x y`), and the canonical list is
`[p++x, p++y]` for *both* input orders.  (With `strncmp(·,·,256)` the keys collided and the
canonical order was the reverse of the input order.) -/
theorem common_prefix_distinct_keys (p x y : Name) (hxy : strcmp x y < 0)
    (s t : List Char) (hst : s.length = t.length) (hs : s.length ≠ 0) :
    let a : InSeq := { name := p ++ x, seq := s }
    let b : InSeq := { name := p ++ y, seq := t }
    a.key ≠ b.key ∧
    cmpLenName s.length a.name t.length b.name = -1 ∧ cmpLenName t.length b.name s.length a.name = 1 ∧
    (canon [a, b]).map view = some [(a.name, a.seq), (b.name, b.seq)] ∧
    (canon [b, a]).map view = some [(a.name, a.seq), (b.name, b.seq)] := by
  intro a b
  have ht : t.length ≠ 0 := by omega
  have hs' : s ≠ [] := fun h => hs (by simp [h])
  have ht' : t ≠ [] := fun h => ht (by simp [h])
  have hAB : strcmp (p ++ x) (p ++ y) < 0 := by rw [strcmp_append_left]; exact hxy
  have hBA : ¬ strcmp (p ++ y) (p ++ x) < 0 := by rw [strcmp_swap]; omega
  have c1 : cmpLenName s.length (p ++ x) t.length (p ++ y) = -1 := by simp [cmpLenName, hAB, hst]
  have c2 : cmpLenName t.length (p ++ y) s.length (p ++ x) = 1 := by simp [cmpLenName, hBA, hst]
  refine ⟨?_, c1, c2, ?_, ?_⟩
  · intro h
    have e : p ++ x = p ++ y := congrArg Prod.snd h
    have : x = y := append_cancel_left e
    rw [this, strcmp_self] at hxy
    omega
  · have e : essentialInputCheck [a, b] = some [⟨p ++ x, s, 0⟩, ⟨p ++ y, t, 1⟩] := by
      simp [essentialInputCheck, essentialCheck, a, b, hs', ht']
    have hle : leLenName ⟨p ++ x, s, 0⟩ ⟨p ++ y, t, 1⟩ = true := by
      simp [leLenName, c1]
    simp only [canon, e, Option.map_some, sortLenName, mergeSort_pair, hle, if_true, view, map_cons, map_nil, a, b]
  · have e : essentialInputCheck [b, a] = some [⟨p ++ y, t, 0⟩, ⟨p ++ x, s, 1⟩] := by
      simp [essentialInputCheck, essentialCheck, a, b, hs', ht']
    have hle : leLenName ⟨p ++ y, t, 0⟩ ⟨p ++ x, s, 1⟩ = false := by
      simp [leLenName, c2]
    simp only [canon, e, Option.map_some, sortLenName, mergeSort_pair, hle, view, a, b]
    rfl

/-- the concrete instance that used to be the counterexample: names 256 × 'A' followed by 'B'
resp. 'C'.  The `sort_len_name` op on `2:41…4142 2:41…4143` gives `0,1` and on the swapped
arguments `1,0` for the C code as well (it gave `1,0` both times before the repair). -/
theorem common_prefix_example :
    let a : InSeq := { name := replicate 256 0x41 ++ [0x42], seq := ['A', 'C'] }
    let b : InSeq := { name := replicate 256 0x41 ++ [0x43], seq := ['G', 'T'] }
    a.name.take 256 = b.name.take 256 ∧ a.key ≠ b.key ∧
    (canon [a, b]).map view = some [(a.name, a.seq), (b.name, b.seq)] ∧
    (canon [b, a]).map view = some [(a.name, a.seq), (b.name, b.seq)] := by
  have h := common_prefix_distinct_keys (replicate 256 0x41) [0x42] [0x43] (by decide)
    ['A', 'C'] ['G', 'T'] rfl (by decide)
  refine ⟨?_, h.1, h.2.2.2.1, h.2.2.2.2⟩
  show ((replicate 256 0x41 : Name) ++ [0x42]).take 256 = ((replicate 256 0x41 : Name) ++ [0x43]).take 256
  rw [take_left' length_replicate, take_left' length_replicate]

/-! ### the hypotheses are satisfiable (non-vacuity) -/

/-- four sequences: equal lengths with names that are prefixes of each other, and an empty one -/
def exInp : List InSeq :=
  [⟨[0x62], "ACGT".toList⟩, ⟨[0x61], "AC".toList⟩, ⟨[0x63], []⟩, ⟨[0x61, 0x62], "ACGT".toList⟩, ⟨[0x61, 0x62, 0x63], "GGGG".toList⟩]
def exInp' : List InSeq :=
  [⟨[0x61, 0x62, 0x63], "GGGG".toList⟩, ⟨[0x63], []⟩, ⟨[0x61, 0x62], "ACGT".toList⟩, ⟨[0x62], "ACGT".toList⟩, ⟨[0x61], "AC".toList⟩]

example : exInp'.Perm exInp := by decide
example : (exInp.map (·.name)).Nodup := by decide
example : ∀ x ∈ exInp, NulFree x.name := by decide
example : exInp.Pairwise fun a b => a.key ≠ b.key := by decide
example : exInp.Pairwise fun a b => a.name ≠ b.name := by decide

end Kalign
