import KalignModel.Props.C07Opt
import KalignModel.Lemmas.ScaleST
import KalignModel.Lemmas.DpCodes
/-!
# C07, second sentence — groups of identical copies (sequence–profile and profile–profile kernels)

Exact carrier.  A group of `k` gap-free identical copies of a sequence enters the kernels as a profile; what the kernels
read from it is `ProfOK` (`Lemmas/ProfKernel.lean`): gap slots `−k·m·penalty`, substitution slots `k·s`, count slot `k`.

* `C07_sp_kernels_scaled`, `C07_pp_kernels_scaled`: on such profiles one step of the real kernels (forward, backward,
  meetup, for every start state and rectangle) **is** one step of the sequence–sequence kernels with every penalty and
  substitution score multiplied by `K` (`K = k` resp. `K = k·m`).  The tie-break term of the meetup is *not* multiplied.
  For profile–profile the kernel reads the transposed matrix entry `s(b, a)`; the statement assumes a symmetric matrix.
* `C07_hirschberg_seqprofile_copies_opt`, `C07_hirschberg_profileprofile_copies_opt`: hence the controller returns exactly
  `P` whenever `P` beats every other alignment by the margin of `C07_hirschberg_seqseq_opt` with the scores multiplied by
  `K` and the tie bound `len_b` left as it is:   `K·S_T(Q) + len_b < K·(S_T(P) − gpo·nterm P − slack)`.
  (Rows = the first profile; `doAlign` makes the profile the row dimension for sequence–profile.)
-/
namespace Kalign

theorem C07_sp_kernels_scaled (ap : AlnParam ExactScore) (gpo gpe tgpe : Int) (s : Nat → Nat → Int)
    (hap : ApOK ap gpo gpe tgpe s) (prof : Array ExactScore) (seqA seq2 : Array Nat) (k : Nat)
    (hP : ProfOK prof seqA k 1 gpo gpe tgpe s) (h2 : ∀ j, seq2.getD j 0 < 23) (lenB : Nat) :
    realKernels ap (.seqprof prof seq2 k) seqA.size lenB =
      realKernels (scaleParam ap k) (.seqseq seqA seq2) seqA.size lenB :=
  sp_realKernels_eq ap gpo gpe tgpe s hap prof seqA seq2 k hP h2 lenB

theorem C07_pp_kernels_scaled (ap : AlnParam ExactScore) (gpo gpe tgpe : Int) (s : Nat → Nat → Int)
    (hap : ApOK ap gpo gpe tgpe s) (hsym : ∀ x y, s x y = s y x)
    (prof1 prof2 : Array ExactScore) (seqA seqB : Array Nat) (k m : Nat) (hk : 1 ≤ k)
    (hP1 : ProfOK prof1 seqA k m gpo gpe tgpe s) (hP2 : ProfOK prof2 seqB m k gpo gpe tgpe s)
    (hA23 : ∀ i, seqA.getD i 0 < 23) :
    realKernels ap (.profprof prof1 prof2) seqA.size seqB.size =
      realKernels (scaleParam ap (k * m)) (.seqseq seqA seqB) seqA.size seqB.size :=
  pp_realKernels_eq ap gpo gpe tgpe s hap hsym prof1 prof2 seqA seqB k m hk hP1 hP2 hA23

/-- the margin of the scaled problem from the scaled margin -/
theorem scaled_margin (K : Nat) (gpo gpe tgpe : Int) (s : Nat → Nat → Int) (a b : List Nat) (P Q : List Col) (lenB : Int)
    (h : (K : Int) * scoreST s gpo gpe tgpe Q a b + lenB <
      (K : Int) * (scoreST s gpo gpe tgpe P a b - gpo * (nterm P : Int) -
        (max 0 (max (tgpe - gpe) (tgpe - gpo)) + max 0 (gpe - tgpe)))) :
    scoreST (fun x y => (K : Int) * s x y) (K * gpo) (K * gpe) (K * tgpe) Q a b + lenB <
      scoreST (fun x y => (K : Int) * s x y) (K * gpo) (K * gpe) (K * tgpe) P a b - (K * gpo) * (nterm P : Int) -
        (max 0 (max ((K : Int) * tgpe - K * gpe) (K * tgpe - K * gpo)) + max 0 ((K : Int) * gpe - K * tgpe)) := by
  rw [scoreST_scale, scoreST_scale, slack_scale _ _ _ _ (Int.natCast_nonneg K)]
  rw [Int.mul_sub, Int.mul_sub, ← Int.mul_assoc] at h
  exact h

theorem C07_hirschberg_seqprofile_copies_opt (entry : Entry) (ap : AlnParam ExactScore) (gpo gpe tgpe : Int)
    (s : Nat → Nat → Int) (hap : ApOK ap gpo gpe tgpe s) (hgpo : 0 ≤ gpo) (hgpe : 0 ≤ gpe) (htgpe : 0 ≤ tgpe)
    (prof : Array ExactScore) (seqA seq2 : Array Nat) (k : Nat)
    (hP : ProfOK prof seqA k 1 gpo gpe tgpe s) (h2 : ∀ j, seq2.getD j 0 < 23)
    (h1A : 1 ≤ seqA.size) (h1B : 1 ≤ seq2.size)
    (P : List Col) (hV : ValidCols P seqA.size seq2.size) (hadj : adjOK .A P = true)
    (hmargin : ∀ Q, ValidCols Q seqA.size seq2.size → adjOK .A Q = true → Q ≠ P →
      (k : Int) * scoreST s gpo gpe tgpe Q seqA.toList seq2.toList + (seq2.size : Int) <
        (k : Int) * (scoreST s gpo gpe tgpe P seqA.toList seq2.toList - gpo * (nterm P : Int) -
          (max 0 (max (tgpe - gpe) (tgpe - gpo)) + max 0 (gpe - tgpe)))) :
    let r := alnRun entry ap (.seqprof prof seq2 k) seqA.size seq2.size (initMem seqA.size seq2.size)
    r.fault = false ∧
      ∃ codes, expandPath seq2.size (r.pathEntries seqA.size) = some codes ∧ codes.map Col.ofCode = P := by
  have hK := sp_realKernels_eq ap gpo gpe tgpe s hap prof seqA seq2 k hP h2 seq2.size
  have hmain := C07_alnRun_opt entry (scaleParam ap k) (k * gpo) (k * gpe) (k * tgpe) (fun x y => (k : Int) * s x y)
    (scaleParam_ok ap gpo gpe tgpe s hap k) (Int.mul_nonneg (Int.natCast_nonneg k) hgpo)
    (Int.mul_nonneg (Int.natCast_nonneg k) hgpe) (Int.mul_nonneg (Int.natCast_nonneg k) htgpe) seqA seq2 h1A h1B P hV
    hadj (fun Q hQ hQadj hne => scaled_margin k gpo gpe tgpe s _ _ P Q _ (hmargin Q hQ hQadj hne))
  unfold alnRun at hmain ⊢
  simp only at hmain ⊢
  rw [hK]
  exact hmain

theorem C07_hirschberg_profileprofile_copies_opt (entry : Entry) (ap : AlnParam ExactScore) (gpo gpe tgpe : Int)
    (s : Nat → Nat → Int) (hap : ApOK ap gpo gpe tgpe s) (hgpo : 0 ≤ gpo) (hgpe : 0 ≤ gpe) (htgpe : 0 ≤ tgpe)
    (hsym : ∀ x y, s x y = s y x)
    (prof1 prof2 : Array ExactScore) (seqA seqB : Array Nat) (k m : Nat) (hk : 1 ≤ k)
    (hP1 : ProfOK prof1 seqA k m gpo gpe tgpe s) (hP2 : ProfOK prof2 seqB m k gpo gpe tgpe s)
    (hA23 : ∀ i, seqA.getD i 0 < 23)
    (h1A : 1 ≤ seqA.size) (h1B : 1 ≤ seqB.size)
    (P : List Col) (hV : ValidCols P seqA.size seqB.size) (hadj : adjOK .A P = true)
    (hmargin : ∀ Q, ValidCols Q seqA.size seqB.size → adjOK .A Q = true → Q ≠ P →
      ((k * m : Nat) : Int) * scoreST s gpo gpe tgpe Q seqA.toList seqB.toList + (seqB.size : Int) <
        ((k * m : Nat) : Int) * (scoreST s gpo gpe tgpe P seqA.toList seqB.toList - gpo * (nterm P : Int) -
          (max 0 (max (tgpe - gpe) (tgpe - gpo)) + max 0 (gpe - tgpe)))) :
    let r := alnRun entry ap (.profprof prof1 prof2) seqA.size seqB.size (initMem seqA.size seqB.size)
    r.fault = false ∧
      ∃ codes, expandPath seqB.size (r.pathEntries seqA.size) = some codes ∧ codes.map Col.ofCode = P := by
  have hK := pp_realKernels_eq ap gpo gpe tgpe s hap hsym prof1 prof2 seqA seqB k m hk hP1 hP2 hA23
  have hmain := C07_alnRun_opt entry (scaleParam ap (k * m)) ((k * m : Nat) * gpo) ((k * m : Nat) * gpe)
    ((k * m : Nat) * tgpe) (fun x y => ((k * m : Nat) : Int) * s x y)
    (scaleParam_ok ap gpo gpe tgpe s hap (k * m)) (Int.mul_nonneg (Int.natCast_nonneg _) hgpo)
    (Int.mul_nonneg (Int.natCast_nonneg _) hgpe) (Int.mul_nonneg (Int.natCast_nonneg _) htgpe) seqA seqB h1A h1B P hV
    hadj (fun Q hQ hQadj hne => scaled_margin (k * m) gpo gpe tgpe s _ _ P Q _ (hmargin Q hQ hQadj hne))
  unfold alnRun at hmain ⊢
  simp only at hmain ⊢
  rw [hK]
  exact hmain

/-! ## (a) the profiles `do_align` builds for identical copies -/

/-- **`profile_of_copies`**: `Built ap seq p k` = `p` is obtained from `makeProfile ap seq` by `update_n` merges along
all-aligned paths (in any order, with any `set_gap_penalties_n` in between, as `do_align` does).  Prepared against a group of
`m` sequences it carries exactly the scaled entries the kernels read. -/
theorem C07_profile_of_copies (ap : AlnParam ExactScore) (gpo gpe tgpe : Int) (s : Nat → Nat → Int)
    (hap : ApOK ap gpo gpe tgpe s) (seq : Array Nat) (h23 : ∀ i, seq.getD i 0 < 23) (p : Array ExactScore) (k m : Nat)
    (h : Built ap seq p k) : ProfOK (setGapPenalties p m) seq k m gpo gpe tgpe s :=
  built_profOK ap gpo gpe tgpe s hap seq h23 p k m h

/-- two profiles of copies can always be merged along the diagonal, and the result is again such a profile -/
theorem C07_profile_merge (ap : AlnParam ExactScore) (gpo gpe tgpe : Int) (s : Nat → Nat → Int)
    (hap : ApOK ap gpo gpe tgpe s) (seq : Array Nat) (h23 : ∀ i, seq.getD i 0 < 23)
    (p1 p2 : Array ExactScore) (k1 k2 sa sb : Nat) (h1 : Built ap seq p1 k1) (h2 : Built ap seq p2 k2) :
    ∃ p, updateN ap p1 p2 (List.replicate seq.size 0) sa sb = some p ∧ Built ap seq p (k1 + k2) :=
  built_merge_exists ap gpo gpe tgpe s hap seq h23 p1 p2 k1 k2 sa sb h1 h2

/-! ## (c) in the orientation of `do_align`: operand choice, swap, `mirror_path_n` -/

/-- the safe margin of `P` for the sequences `(a, b)` with all scores multiplied by `K` and tie bound `T` -/
def MarginK (s : Nat → Nat → Int) (gpo gpe tgpe : Int) (a b : Array Nat) (P : List Col) (K T : Nat) : Prop :=
  ∀ Q, ValidCols Q a.size b.size → adjOK .A Q = true → Q ≠ P →
    (K : Int) * scoreST s gpo gpe tgpe Q a.toList b.toList + (T : Int) <
      (K : Int) * (scoreST s gpo gpe tgpe P a.toList b.toList - gpo * (nterm P : Int) -
        (max 0 (max (tgpe - gpe) (tgpe - gpo)) + max 0 (gpe - tgpe)))

theorem MarginK.mono {s : Nat → Nat → Int} {gpo gpe tgpe : Int} {a b : Array Nat} {P : List Col} {K T T' : Nat}
    (h : MarginK s gpo gpe tgpe a b P K T) (hT : T' ≤ T) : MarginK s gpo gpe tgpe a b P K T' := by
  intro Q h1 h2 h3
  have := h Q h1 h2 h3
  omega

/-- symmetric matrix: the margin of the exchanged problem -/
theorem MarginK.swap {s : Nat → Nat → Int} (hsym : ∀ x y, s x y = s y x) {gpo gpe tgpe : Int} {a b : Array Nat}
    {P : List Col} {K T : Nat} (h : MarginK s gpo gpe tgpe a b P K T) :
    MarginK s gpo gpe tgpe b a (P.map Col.swap) K T := by
  intro Q' hV hadj hne
  have h1 := h (Q'.map Col.swap) (validCols_swap _ _ _ hV) (by
    have := adjOK_swap .A Q'; simp only [Kind.swap] at this; rw [this]; exact hadj) (by
    intro hq; apply hne; rw [← hq, map_swap_swap])
  rw [scoreST_swap s hsym, nterm_swap]
  have e : scoreST s gpo gpe tgpe Q' b.toList a.toList =
      scoreST s gpo gpe tgpe (Q'.map Col.swap) a.toList b.toList := by
    have := scoreST_swap s hsym gpo gpe tgpe (Q'.map Col.swap) a.toList b.toList
    rw [map_swap_swap] at this
    exact this
  rw [e]; exact h1

/-- the scaled sequence–sequence problem satisfies the standing assumptions of the optimality theorem -/
theorem optHyp_scaled (ap : AlnParam ExactScore) (gpo gpe tgpe : Int) (s : Nat → Nat → Int)
    (hap : ApOK ap gpo gpe tgpe s) (hgpo : 0 ≤ gpo) (hgpe : 0 ≤ gpe) (htgpe : 0 ≤ tgpe)
    (K : Nat) (a b : Array Nat) (P : List Col) (hV : ValidCols P a.size b.size) (hadj : adjOK .A P = true)
    (hm : MarginK s gpo gpe tgpe a b P K b.size) :
    OptHyp (scaleParam ap K) ((K : Int) * gpo) ((K : Int) * gpe) ((K : Int) * tgpe) (fun x y => (K : Int) * s x y)
      a b a.size b.size P := by
  refine ⟨scaleParam_ok ap gpo gpe tgpe s hap K, Int.mul_nonneg (Int.natCast_nonneg K) hgpo,
    Int.mul_nonneg (Int.natCast_nonneg K) hgpe, Int.mul_nonneg (Int.natCast_nonneg K) htgpe, hadj, hV.2.1, hV.2.2, ?_⟩
  intro Q hQadj hQA hQB hne
  have := scaled_margin K gpo gpe tgpe s _ _ P Q _ (hm Q ⟨adjOK_noskip _ _ hQadj, hQA, hQB⟩ hQadj hne)
  rw [C07_walk_eq_scoreST, C07_walk_eq_scoreST]
  show _ < _ - _ - max 0 (max ((K : Int) * tgpe - K * gpe) (K * tgpe - K * gpo)) - max 0 ((K : Int) * gpe - K * tgpe)
  omega

theorem optHyp_plain (ap : AlnParam ExactScore) (gpo gpe tgpe : Int) (s : Nat → Nat → Int)
    (hap : ApOK ap gpo gpe tgpe s) (hgpo : 0 ≤ gpo) (hgpe : 0 ≤ gpe) (htgpe : 0 ≤ tgpe)
    (a b : Array Nat) (P : List Col) (hV : ValidCols P a.size b.size) (hadj : adjOK .A P = true)
    (hm : MarginK s gpo gpe tgpe a b P 1 b.size) : OptHyp ap gpo gpe tgpe s a b a.size b.size P := by
  refine ⟨hap, hgpo, hgpe, htgpe, hadj, hV.2.1, hV.2.2, ?_⟩
  intro Q hQadj hQA hQB hne
  have := hm Q ⟨adjOK_noskip _ _ hQadj, hQA, hQB⟩ hQadj hne
  rw [C07_walk_eq_scoreST, C07_walk_eq_scoreST]
  show _ < _ - _ - max 0 (max (tgpe - gpe) (tgpe - gpo)) - max 0 (gpe - tgpe)
  simp only [Int.natCast_one, Int.one_mul] at this
  omega

/-- **sequence – sequence as `do_align` runs it** (`a` is the row dimension iff `len_a < len_b`; otherwise the operands
are exchanged and the path is mirrored); symmetric matrix -/
theorem C07_doAlign_seqseq_opt (entry : Entry) (ap : AlnParam ExactScore) (gpo gpe tgpe : Int) (s : Nat → Nat → Int)
    (hap : ApOK ap gpo gpe tgpe s) (hgpo : 0 ≤ gpo) (hgpe : 0 ≤ gpe) (htgpe : 0 ≤ tgpe) (hsym : ∀ x y, s x y = s y x)
    (a b : Array Nat) (h1A : 1 ≤ a.size) (h1B : 1 ≤ b.size)
    (P : List Col) (hV : ValidCols P a.size b.size) (hadj : adjOK .A P = true)
    (hm : MarginK s gpo gpe tgpe a b P 1 (max a.size b.size)) :
    ∃ codes, (if a.size < b.size then dpCodes entry ap (.seqseq a b) false a.size b.size a.size b.size
        else dpCodes entry ap (.seqseq b a) true b.size a.size a.size b.size) = some codes ∧
      codes.map Col.ofCode = P := by
  by_cases hlt : a.size < b.size
  · rw [if_pos hlt]
    exact dp_unswapped entry ap _ _ _ P (ss_runOK entry ap gpo gpe tgpe s a b P
      (optHyp_plain ap gpo gpe tgpe s hap hgpo hgpe htgpe a b P hV hadj (hm.mono (by omega)))) hV hadj h1A h1B
  · rw [if_neg hlt]
    refine dp_swapped entry ap _ _ _ P (ss_runOK entry ap gpo gpe tgpe s b a _
      (optHyp_plain ap gpo gpe tgpe s hap hgpo hgpe htgpe b a _ (validCols_swap _ _ _ hV) (by
        have := adjOK_swap .A P; simp only [Kind.swap] at this; rw [this]; exact hadj)
        ((hm.mono (by omega)).swap hsym))) hV hadj h1A h1B

/-- the controller on a profile of `k` copies (rows) and a sequence (columns) writes the path of `P` -/
theorem sp_runOK (entry : Entry) (ap : AlnParam ExactScore) (gpo gpe tgpe : Int) (s : Nat → Nat → Int)
    (hap : ApOK ap gpo gpe tgpe s) (hgpo : 0 ≤ gpo) (hgpe : 0 ≤ gpe) (htgpe : 0 ≤ tgpe)
    (prof : Array ExactScore) (seqA seq2 : Array Nat) (k : Nat)
    (hP : ProfOK prof seqA k 1 gpo gpe tgpe s) (h2 : ∀ j, seq2.getD j 0 < 23)
    (P : List Col) (hV : ValidCols P seqA.size seq2.size) (hadj : adjOK .A P = true)
    (hm : MarginK s gpo gpe tgpe seqA seq2 P k seq2.size) :
    RunOK entry ap (.seqprof prof seq2 k) seqA.size seq2.size P := by
  have hK := sp_realKernels_eq ap gpo gpe tgpe s hap prof seqA seq2 k hP h2 seq2.size
  have := ss_runOK entry (scaleParam ap k) _ _ _ _ seqA seq2 P
    (optHyp_scaled ap gpo gpe tgpe s hap hgpo hgpe htgpe k seqA seq2 P hV hadj hm)
  unfold RunOK alnRun at this ⊢
  simp only at this ⊢
  rw [hK]
  exact this

theorem pp_runOK (entry : Entry) (ap : AlnParam ExactScore) (gpo gpe tgpe : Int) (s : Nat → Nat → Int)
    (hap : ApOK ap gpo gpe tgpe s) (hgpo : 0 ≤ gpo) (hgpe : 0 ≤ gpe) (htgpe : 0 ≤ tgpe) (hsym : ∀ x y, s x y = s y x)
    (prof1 prof2 : Array ExactScore) (seqA seqB : Array Nat) (k m : Nat) (hk : 1 ≤ k)
    (hP1 : ProfOK prof1 seqA k m gpo gpe tgpe s) (hP2 : ProfOK prof2 seqB m k gpo gpe tgpe s)
    (hA23 : ∀ i, seqA.getD i 0 < 23)
    (P : List Col) (hV : ValidCols P seqA.size seqB.size) (hadj : adjOK .A P = true)
    (hm : MarginK s gpo gpe tgpe seqA seqB P (k * m) seqB.size) :
    RunOK entry ap (.profprof prof1 prof2) seqA.size seqB.size P := by
  have hK := pp_realKernels_eq ap gpo gpe tgpe s hap hsym prof1 prof2 seqA seqB k m hk hP1 hP2 hA23
  have := ss_runOK entry (scaleParam ap (k * m)) _ _ _ _ seqA seqB P
    (optHyp_scaled ap gpo gpe tgpe s hap hgpo hgpe htgpe (k * m) seqA seqB P hV hadj hm)
  unfold RunOK alnRun at this ⊢
  simp only at this ⊢
  rw [hK]
  exact this

/-- **sequence – profile as `do_align` runs it, the group on side `a`** (`k > 1` copies of `a` built by diagonal merges,
one sequence `b`): operands `(.seqprof pa b k)`, not swapped -/
theorem C07_doAlign_profile_seq_opt (entry : Entry) (ap : AlnParam ExactScore) (gpo gpe tgpe : Int) (s : Nat → Nat → Int)
    (hap : ApOK ap gpo gpe tgpe s) (hgpo : 0 ≤ gpo) (hgpe : 0 ≤ gpe) (htgpe : 0 ≤ tgpe)
    (a b : Array Nat) (ha23 : ∀ i, a.getD i 0 < 23) (hb23 : ∀ j, b.getD j 0 < 23) (h1A : 1 ≤ a.size) (h1B : 1 ≤ b.size)
    (pa : Array ExactScore) (k : Nat) (hpa : Built ap a pa k)
    (P : List Col) (hV : ValidCols P a.size b.size) (hadj : adjOK .A P = true)
    (hm : MarginK s gpo gpe tgpe a b P k b.size) :
    ∃ codes, dpCodes entry ap (.seqprof (setGapPenalties pa 1) b k) false a.size b.size a.size b.size = some codes ∧
      codes.map Col.ofCode = P :=
  dp_unswapped entry ap _ _ _ P (sp_runOK entry ap gpo gpe tgpe s hap hgpo hgpe htgpe _ a b k
    (built_profOK ap gpo gpe tgpe s hap a ha23 pa k 1 hpa) hb23 P hV hadj hm) hV hadj h1A h1B

/-- **sequence – profile, the group on side `b`** (one sequence `a`, `k > 1` copies of `b`): operands
`(.seqprof pb a k)`, swapped, the path is mirrored; symmetric matrix -/
theorem C07_doAlign_seq_profile_opt (entry : Entry) (ap : AlnParam ExactScore) (gpo gpe tgpe : Int) (s : Nat → Nat → Int)
    (hap : ApOK ap gpo gpe tgpe s) (hgpo : 0 ≤ gpo) (hgpe : 0 ≤ gpe) (htgpe : 0 ≤ tgpe) (hsym : ∀ x y, s x y = s y x)
    (a b : Array Nat) (ha23 : ∀ i, a.getD i 0 < 23) (hb23 : ∀ j, b.getD j 0 < 23) (h1A : 1 ≤ a.size) (h1B : 1 ≤ b.size)
    (pb : Array ExactScore) (k : Nat) (hpb : Built ap b pb k)
    (P : List Col) (hV : ValidCols P a.size b.size) (hadj : adjOK .A P = true)
    (hm : MarginK s gpo gpe tgpe a b P k a.size) :
    ∃ codes, dpCodes entry ap (.seqprof (setGapPenalties pb 1) a k) true b.size a.size a.size b.size = some codes ∧
      codes.map Col.ofCode = P :=
  dp_swapped entry ap _ _ _ P (sp_runOK entry ap gpo gpe tgpe s hap hgpo hgpe htgpe _ b a k
    (built_profOK ap gpo gpe tgpe s hap b hb23 pb k 1 hpb) ha23 _ (validCols_swap _ _ _ hV) (by
      have := adjOK_swap .A P; simp only [Kind.swap] at this; rw [this]; exact hadj) (hm.swap hsym)) hV hadj h1A h1B

/-- **profile – profile as `do_align` runs it** (`k` copies of `a`, `m` copies of `b`, both built by diagonal merges; `a`
is the row dimension iff `len_a < len_b`); symmetric matrix -/
theorem C07_doAlign_profile_profile_opt (entry : Entry) (ap : AlnParam ExactScore) (gpo gpe tgpe : Int)
    (s : Nat → Nat → Int) (hap : ApOK ap gpo gpe tgpe s) (hgpo : 0 ≤ gpo) (hgpe : 0 ≤ gpe) (htgpe : 0 ≤ tgpe)
    (hsym : ∀ x y, s x y = s y x)
    (a b : Array Nat) (ha23 : ∀ i, a.getD i 0 < 23) (hb23 : ∀ j, b.getD j 0 < 23) (h1A : 1 ≤ a.size) (h1B : 1 ≤ b.size)
    (pa pb : Array ExactScore) (k m : Nat) (hk : 1 ≤ k) (hmm : 1 ≤ m) (hpa : Built ap a pa k) (hpb : Built ap b pb m)
    (P : List Col) (hV : ValidCols P a.size b.size) (hadj : adjOK .A P = true)
    (hm : MarginK s gpo gpe tgpe a b P (k * m) (max a.size b.size)) :
    ∃ codes, (if a.size < b.size then
          dpCodes entry ap (.profprof (setGapPenalties pa m) (setGapPenalties pb k)) false a.size b.size a.size b.size
        else
          dpCodes entry ap (.profprof (setGapPenalties pb k) (setGapPenalties pa m)) true b.size a.size a.size b.size)
        = some codes ∧ codes.map Col.ofCode = P := by
  have hPa := built_profOK ap gpo gpe tgpe s hap a ha23 pa k m hpa
  have hPb := built_profOK ap gpo gpe tgpe s hap b hb23 pb m k hpb
  by_cases hlt : a.size < b.size
  · rw [if_pos hlt]
    exact dp_unswapped entry ap _ _ _ P (pp_runOK entry ap gpo gpe tgpe s hap hgpo hgpe htgpe hsym _ _ a b k m hk
      hPa hPb ha23 P hV hadj (hm.mono (by omega))) hV hadj h1A h1B
  · rw [if_neg hlt]
    refine dp_swapped entry ap _ _ _ P (pp_runOK entry ap gpo gpe tgpe s hap hgpo hgpe htgpe hsym _ _ b a m k hmm
      hPb hPa hb23 _ (validCols_swap _ _ _ hV) (by
        have := adjOK_swap .A P; simp only [Kind.swap] at this; rw [this]; exact hadj) ?_) hV hadj h1A h1B
    rw [Nat.mul_comm m k]
    exact (hm.mono (by omega)).swap hsym

/-! ## non-vacuity -/

/-- the code check of `Operands.lens?` gives the hypothesis on the codes -/
theorem getD_lt_of_all (a : Array Nat) (h : a.all (· < 23) = true) : ∀ i, a.getD i 0 < 23 := by
  intro i
  rw [Array.getD_eq_getD_getElem?]
  by_cases hi : i < a.size
  · rw [Array.getElem?_eq_getElem hi]
    have := (Array.all_eq_true.mp h) i hi
    simpa using this
  · rw [Array.getElem?_eq_none (by omega)]; decide

/-- two copies of a = (0,1,2): the profile `update_n` builds from two single-sequence profiles along the diagonal -/
def exProf2 : Array ExactScore :=
  (updateN exP2 (makeProfile exP2 #[0, 1, 2]) (makeProfile exP2 #[0, 1, 2]) [0, 0, 0] 1 1).getD #[]

theorem exProf2_built : Built exP2 #[0, 1, 2] exProf2 2 := by
  obtain ⟨p, hp, hb⟩ := built_merge_exists exP2 1000 500 200 exS exP2_ok #[0, 1, 2]
    (getD_lt_of_all _ (by decide +kernel)) _ _ 1 1 1 1 Built.leaf Built.leaf
  have : exProf2 = p := by
    unfold exProf2
    have h3 : (List.replicate (#[0, 1, 2] : Array Nat).size 0) = [0, 0, 0] := rfl
    rw [h3] at hp
    rw [hp]; rfl
  rw [this]; exact hb

/-- what the kernels read from it after `set_gap_penalties_n(·, 1)`: column 2 (residue 1) -/
example : (pget (setGapPenalties exProf2 1) 2 1, pget (setGapPenalties exProf2 1) 2 27,
    pget (setGapPenalties exProf2 1) 2 28, pget (setGapPenalties exProf2 1) 2 29,
    pget (setGapPenalties exProf2 1) 2 (32 + 1), pget (setGapPenalties exProf2 1) 2 (32 + 0)) =
    (some 4000, some (-2000), some (-1000), some (-400), some 20000, some (-16000)) := by decide +kernel

/-- the scaled margin (`K = 2`, tie bound 2) holds for `P = [both, gapB, both]`, a = (0,1,2), b = (0,2) -/
theorem exMargin2 : MarginK exS 1000 500 200 #[0, 1, 2] #[0, 2] [.both, .gapB, .both] 2 2 := by
  intro Q hV hadj hne
  have hmem : Q ∈ enumCols 5 3 2 := by
    have h := enumCols_complete Q hV.1 5 (by
      have := length_le_cons Q hV.1
      rw [hV.2.1, hV.2.2] at this
      exact this)
    rw [hV.2.1, hV.2.2] at h
    exact h
  have hall : (enumCols 5 3 2).all (fun Q => !(adjOK .A Q) || decide (Q = [.both, .gapB, .both]) ||
      decide ((2 : Int) * scoreST exS 1000 500 200 Q [0, 1, 2] [0, 2] + 2 <
        2 * (scoreST exS 1000 500 200 [.both, .gapB, .both] [0, 1, 2] [0, 2] -
          1000 * (nterm [Col.both, .gapB, .both] : Int) -
          (max 0 (max (200 - 500) (200 - 1000)) + max 0 (500 - 200))))) = true := by
    decide +kernel
  have := List.all_eq_true.mp hall Q hmem
  simp only [Bool.or_eq_true, Bool.not_eq_true', decide_eq_true_eq] at this
  rcases this with (h | h) | h
  · rw [hadj] at h; exact absurd h (by simp)
  · exact absurd h hne
  · exact h

/-- so `C07_doAlign_profile_seq_opt` applies to the group of two copies of `a` against `b` … -/
example : ∃ codes, dpCodes .parallel exP2 (.seqprof (setGapPenalties exProf2 1) #[0, 2] 2) false 3 2 3 2 = some codes ∧
    codes.map Col.ofCode = [.both, .gapB, .both] :=
  C07_doAlign_profile_seq_opt .parallel exP2 1000 500 200 exS exP2_ok (by decide) (by decide) (by decide)
    #[0, 1, 2] #[0, 2] (getD_lt_of_all _ (by decide +kernel)) (getD_lt_of_all _ (by decide +kernel)) (by decide) (by decide)
    exProf2 2 exProf2_built [.both, .gapB, .both] ⟨by decide, by decide, by decide⟩ (by decide) exMargin2

/-- … and this is what the model computes, for the sequence–profile and (with a second group of two copies of `b`) for the
profile–profile kernels -/
example : dpCodes .parallel exP2 (.seqprof (setGapPenalties exProf2 1) #[0, 2] 2) false 3 2 3 2 = some [0, 2, 0] := by
  decide +kernel

example :
    let pb := (updateN exP2 (makeProfile exP2 #[0, 2]) (makeProfile exP2 #[0, 2]) [0, 0] 1 1).getD #[]
    dpCodes .serial exP2 (.profprof (setGapPenalties pb 2) (setGapPenalties exProf2 2)) true 2 3 3 2 =
      some [0, 2, 0] := by
  decide +kernel

/-- `dpCodes` is literally what `do_align` computes: a concrete call (two single sequences, `len_a ≥ len_b`, swapped) -/
example :
    (doAlign .parallel exP2 (AlnState.init #[#[0, 1, 2], #[0, 2]]) 0 1 2 true).map (·.2.codes) =
      dpCodes .parallel exP2 (.seqseq #[0, 2] #[0, 1, 2]) true 2 3 3 2 := by
  decide +kernel

end Kalign
