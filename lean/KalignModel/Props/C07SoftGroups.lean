import KalignModel.Props.C07SoftProf
import KalignModel.Lemmas.SoftProf5
/-!
# C07 / C08 on binary32 — groups of identical copies, complete (slice AB)

`Props/C07SoftProf.lean` left the two group theorems as `_partial` with the kernel equality `hK` as a hypothesis.  Here `hK` is proved
and everything of `Props/C07Prof.lean` / the group part of `Props/C08Opt.lean` is transferred to `SoftF32` (IEEE binary32 in core Lean,
bit-exact with the C `float` code) for dyadic parameter sets:

* `ProfOKS` (Lemmas/SoftProf3.lean): the binary32 image of `ProfOK`: slots 27/28/29 = `−(k·m·g)/2` (`neg (half …)`, so `−0` for a zero
  penalty), slots `32+c` = `(k·sh(seq[i],c))/2`, count slot `(float)k`; `g = gpo/1000` etc. are the parameters in half score units
  (the exact carrier counts 1/2000, `DyadicParam` says every parameter is a multiple of 1000 of those).
* `C07Soft_profile_of_copies`, `C07Soft_profile_merge`: `makeProfile` / `setGapPenalties` / diagonal `updateN` on `SoftF32` (`BuiltS`)
  produce `ProfOKS` profiles as long as `k·m·U < 2²⁴` and `k·m < 2²³` (`U = 32`, `k·m ≤ 2⁶` is far inside).
* `C07Soft_sp_kernels_scaled`, `C07Soft_pp_kernels_scaled`: equality of `Kernels` objects
  `realKernels ap (.seqprof prof seq2 k) … = realKernels (scaleParamS ap k) (.seqseq seqA seq2) …` and the profile–profile twin with
  `scaleParamS ap (k*m)` (symmetric matrix).
* `C07Soft_hirschberg_seqprofile_copies_opt`, `C07Soft_hirschberg_profileprofile_copies_opt`: the `_partial` theorems without `hK`.
* `C07Soft_doAlign_seqseq_opt`, `…_profile_seq_opt`, `…_seq_profile_opt`, `…_profile_profile_opt`: in `do_align`'s orientation (operand
  choice, swap, `mirror_path_n`); `dpCodesS` is the `SoftF32` instance of the lines of `doAlign` between `initMem` and `expandPath`.
  Margin: `MarginK … K (T + 1000)`, `T` the column dimension the controller sees (the binary32 slack of 0.5 score units is *not* scaled).
* `C08Soft_identical_groups_diag`, `C08Soft_identical_seq_group_diag`, `C08Soft_identical_group_seq_diag` (+ `_table`, `_protein`,
  `_dna_internal`): `k` against `m` identical copies come back as the gap-free diagonal.
-/
namespace Kalign
open SoftF32

/-! ## (a) the binary32 profiles of copies -/

/-- **binary32 `profile_of_copies`** -/
theorem C07Soft_profile_of_copies (U : Nat) (ap : AlnParam SoftF32) (apE : AlnParam ExactScore) (hd : DyadicParam U ap apE)
    (gpo gpe tgpe : Int) (s : Nat → Nat → Int) (hap : ApOK apE gpo gpe tgpe s) (hgpo : 0 ≤ gpo) (hgpe : 0 ≤ gpe)
    (htgpe : 0 ≤ tgpe) (seq : Array Nat) (h23 : ∀ i, seq.getD i 0 < 23) (p : Array SoftF32) (k m : Nat)
    (h : BuiltS ap seq p k) (hm : 1 ≤ m) (hkmU : k * m * U < 16777216) (hkm : k * m < 8388608) :
    ProfOKS (setGapPenalties p m) seq k m (gpo / 1000) (gpe / 1000) (tgpe / 1000) (fun x y => s x y / 1000) :=
  builtS_profOKS U ap _ _ _ _ (halfParam_of_dyadic hd hap hgpo hgpe htgpe).1 seq h23 p k m h hm hkmU hkm

/-- two binary32 profiles of copies can be merged along the diagonal (within the exactness budget), giving such a profile again -/
theorem C07Soft_profile_merge (U : Nat) (ap : AlnParam SoftF32) (apE : AlnParam ExactScore) (hd : DyadicParam U ap apE)
    (gpo gpe tgpe : Int) (s : Nat → Nat → Int) (hap : ApOK apE gpo gpe tgpe s) (hgpo : 0 ≤ gpo) (hgpe : 0 ≤ gpe)
    (htgpe : 0 ≤ tgpe) (seq : Array Nat) (h23 : ∀ i, seq.getD i 0 < 23)
    (p1 p2 : Array SoftF32) (k1 k2 sa sb : Nat) (h1 : BuiltS ap seq p1 k1) (h2 : BuiltS ap seq p2 k2)
    (hkU : (k1 + k2) * U < 16777216) (hk : k1 + k2 < 8388608) :
    ∃ p, updateN ap p1 p2 (List.replicate seq.size 0) sa sb = some p ∧ BuiltS ap seq p (k1 + k2) :=
  builtS_merge_exists U ap _ _ _ _ (halfParam_of_dyadic hd hap hgpo hgpe htgpe).1 seq h23 p1 p2 k1 k2 sa sb h1 h2 hkU hk

/-! ## (b) the kernel equalities -/

theorem C07Soft_sp_kernels_scaled (U : Nat) (ap : AlnParam SoftF32) (apE : AlnParam ExactScore) (hd : DyadicParam U ap apE)
    (gpo gpe tgpe : Int) (s : Nat → Nat → Int) (hap : ApOK apE gpo gpe tgpe s) (hgpo : 0 ≤ gpo) (hgpe : 0 ≤ gpe)
    (htgpe : 0 ≤ tgpe) (prof : Array SoftF32) (seqA seq2 : Array Nat) (k : Nat) (hk1 : 1 ≤ k) (hk : k < 16777216)
    (hkU : k * U < 16777216)
    (hP : ProfOKS prof seqA k 1 (gpo / 1000) (gpe / 1000) (tgpe / 1000) (fun x y => s x y / 1000))
    (h2 : ∀ j, seq2.getD j 0 < 23) (lenB : Nat) :
    realKernels ap (.seqprof prof seq2 k) seqA.size lenB =
      realKernels (scaleParamS ap k) (.seqseq seqA seq2) seqA.size lenB :=
  sp_realKernels_eqS U ap _ _ _ _ (halfParam_of_dyadic hd hap hgpo hgpe htgpe).1 prof seqA seq2 k hk1 hk hkU hP h2 lenB

theorem C07Soft_pp_kernels_scaled (U : Nat) (ap : AlnParam SoftF32) (apE : AlnParam ExactScore) (hd : DyadicParam U ap apE)
    (gpo gpe tgpe : Int) (s : Nat → Nat → Int) (hap : ApOK apE gpo gpe tgpe s) (hgpo : 0 ≤ gpo) (hgpe : 0 ≤ gpe)
    (htgpe : 0 ≤ tgpe) (hsym : ∀ x y, s x y = s y x)
    (prof1 prof2 : Array SoftF32) (seqA seqB : Array Nat) (k m : Nat) (hk1 : 1 ≤ k) (hm1 : 1 ≤ m)
    (hKU : k * m * U < 16777216) (hK : k * m < 8388608)
    (hP1 : ProfOKS prof1 seqA k m (gpo / 1000) (gpe / 1000) (tgpe / 1000) (fun x y => s x y / 1000))
    (hP2 : ProfOKS prof2 seqB m k (gpo / 1000) (gpe / 1000) (tgpe / 1000) (fun x y => s x y / 1000))
    (hA23 : ∀ i, seqA.getD i 0 < 23) :
    realKernels ap (.profprof prof1 prof2) seqA.size seqB.size =
      realKernels (scaleParamS ap (k * m)) (.seqseq seqA seqB) seqA.size seqB.size :=
  pp_realKernels_eqS U ap _ _ _ _ (halfParam_of_dyadic hd hap hgpo hgpe htgpe).1
    (fun x y => by show s x y / 1000 = s y x / 1000; rw [hsym]) prof1 prof2 seqA seqB k m hk1 hm1 hKU hK hP1 hP2 hA23

/-! ## the two group theorems of `Props/C07SoftProf.lean`, now without `hK` -/

/-- **sequence – profile, `k` identical copies, binary32** -/
theorem C07Soft_hirschberg_seqprofile_copies_opt (entry : Entry) (U : Nat) (ap : AlnParam SoftF32)
    (apE : AlnParam ExactScore) (hd : DyadicParam U ap apE) (gpo gpe tgpe : Int) (s : Nat → Nat → Int)
    (hap : ApOK apE gpo gpe tgpe s) (hgpo : 0 ≤ gpo) (hgpe : 0 ≤ gpe) (htgpe : 0 ≤ tgpe)
    (prof : Array SoftF32) (seqA seq2 : Array Nat) (k : Nat) (hk1 : 1 ≤ k) (hk : k < 16777216)
    (hP : ProfOKS prof seqA k 1 (gpo / 1000) (gpe / 1000) (tgpe / 1000) (fun x y => s x y / 1000))
    (h2 : ∀ j, seq2.getD j 0 < 23)
    (h1A : 1 ≤ seqA.size) (h1B : 1 ≤ seq2.size) (hkU : k * U < 16777216)
    (hsize : (k * U) * (seqA.size + seq2.size + 1) + seq2.size / 1000 + 1 < 16777216) (hlenB : seq2.size < 4194304)
    (P : List Col) (hV : ValidCols P seqA.size seq2.size) (hadj : adjOK .A P = true)
    (hmargin : ∀ Q, ValidCols Q seqA.size seq2.size → adjOK .A Q = true → Q ≠ P →
      (k : Int) * scoreST s gpo gpe tgpe Q seqA.toList seq2.toList + ((seq2.size : Int) + 1000) <
        (k : Int) * (scoreST s gpo gpe tgpe P seqA.toList seq2.toList - gpo * (nterm P : Int) -
          (max 0 (max (tgpe - gpe) (tgpe - gpo)) + max 0 (gpe - tgpe)))) :
    let r := alnRun entry ap (.seqprof prof seq2 k) seqA.size seq2.size (initMem seqA.size seq2.size)
    r.fault = false ∧
      ∃ codes, expandPath seq2.size (r.pathEntries seqA.size) = some codes ∧ codes.map Col.ofCode = P :=
  C07Soft_hirschberg_seqprofile_copies_opt_partial entry U ap apE hd gpo gpe tgpe s hap hgpo hgpe htgpe prof seqA seq2 k hk1 hk
    (C07Soft_sp_kernels_scaled U ap apE hd gpo gpe tgpe s hap hgpo hgpe htgpe prof seqA seq2 k hk1 hk hkU hP h2 seq2.size)
    h1A h1B hkU hsize hlenB P hV hadj hmargin

/-- **profile – profile, `k` copies against `m` copies, binary32** (symmetric matrix) -/
theorem C07Soft_hirschberg_profileprofile_copies_opt (entry : Entry) (U : Nat) (ap : AlnParam SoftF32)
    (apE : AlnParam ExactScore) (hd : DyadicParam U ap apE) (gpo gpe tgpe : Int) (s : Nat → Nat → Int)
    (hap : ApOK apE gpo gpe tgpe s) (hgpo : 0 ≤ gpo) (hgpe : 0 ≤ gpe) (htgpe : 0 ≤ tgpe) (hsym : ∀ x y, s x y = s y x)
    (prof1 prof2 : Array SoftF32) (seqA seqB : Array Nat) (k m : Nat) (hk1 : 1 ≤ k) (hm1 : 1 ≤ m) (hK : k * m < 8388608)
    (hP1 : ProfOKS prof1 seqA k m (gpo / 1000) (gpe / 1000) (tgpe / 1000) (fun x y => s x y / 1000))
    (hP2 : ProfOKS prof2 seqB m k (gpo / 1000) (gpe / 1000) (tgpe / 1000) (fun x y => s x y / 1000))
    (hA23 : ∀ i, seqA.getD i 0 < 23)
    (h1A : 1 ≤ seqA.size) (h1B : 1 ≤ seqB.size) (hkU : k * m * U < 16777216)
    (hsize : (k * m * U) * (seqA.size + seqB.size + 1) + seqB.size / 1000 + 1 < 16777216) (hlenB : seqB.size < 4194304)
    (P : List Col) (hV : ValidCols P seqA.size seqB.size) (hadj : adjOK .A P = true)
    (hmargin : ∀ Q, ValidCols Q seqA.size seqB.size → adjOK .A Q = true → Q ≠ P →
      ((k * m : Nat) : Int) * scoreST s gpo gpe tgpe Q seqA.toList seqB.toList + ((seqB.size : Int) + 1000) <
        ((k * m : Nat) : Int) * (scoreST s gpo gpe tgpe P seqA.toList seqB.toList - gpo * (nterm P : Int) -
          (max 0 (max (tgpe - gpe) (tgpe - gpo)) + max 0 (gpe - tgpe)))) :
    let r := alnRun entry ap (.profprof prof1 prof2) seqA.size seqB.size (initMem seqA.size seqB.size)
    r.fault = false ∧
      ∃ codes, expandPath seqB.size (r.pathEntries seqA.size) = some codes ∧ codes.map Col.ofCode = P :=
  C07Soft_hirschberg_profileprofile_copies_opt_partial entry U ap apE hd gpo gpe tgpe s hap hgpo hgpe htgpe prof1 prof2 seqA seqB
    k m (Nat.mul_pos hk1 hm1) (by omega)
    (C07Soft_pp_kernels_scaled U ap apE hd gpo gpe tgpe s hap hgpo hgpe htgpe hsym prof1 prof2 seqA seqB k m hk1 hm1 hkU hK hP1
      hP2 hA23)
    h1A h1B hkU hsize hlenB P hV hadj hmargin

/-! ## (c) in the orientation of `do_align` -/

/-- the column codes `do_align` computes on `SoftF32` from the operands it hands to the controller (the `SoftF32` instance of
`dpCodes`, i.e. the lines of `Model/DoAlign.lean` between `initMem` and `expandPath`) -/
def dpCodesS (entry : Entry) (ap : AlnParam SoftF32) (ops : Operands SoftF32) (swapped : Bool)
    (la lb lenA lenB : Nat) : Option (List Nat) :=
  let m := alnRun entry ap ops la lb (initMem la lb)
  if m.fault then none
  else
    let raw := m.pathEntries la
    let path := if swapped then mirrorPath lenA raw else raw
    expandPath lenB path

/-- the binary32 controller does not fault and writes the path of `P` -/
def RunOKS (entry : Entry) (ap : AlnParam SoftF32) (ops : Operands SoftF32) (la lb : Nat) (P : List Col) : Prop :=
  (alnRun entry ap ops la lb (initMem la lb)).fault = false ∧
    (alnRun entry ap ops la lb (initMem la lb)).pathEntries la = pathFrom 0 P

/-- sequence–sequence on binary32: both entry points write the path of the robust optimum -/
theorem ss_runOKS (entry : Entry) (U : Nat) (ap : AlnParam SoftF32) (apE : AlnParam ExactScore) (gpo gpe tgpe : Int)
    (s : Nat → Nat → Int) (seq1 seq2 : Array Nat) (P : List Col)
    (H : OptHypS U ap apE gpo gpe tgpe s seq1 seq2 seq1.size seq2.size P) :
    RunOKS entry ap (.seqseq seq1 seq2) seq1.size seq2.size P := by
  have hfuel : seq1.size + seq2.size + 1 ≤ (initMem seq1.size seq2.size : MemS).fuel := by
    show seq1.size + seq2.size + 1 ≤ ((seq1.size : Int) - 0).toNat + ((seq2.size : Int) - 0).toNat + 2
    omega
  have hser := runner_path_optS U ap apE gpo gpe tgpe s seq1 seq2 seq1.size seq2.size P H _ hfuel
  cases entry with
  | serial => exact hser
  | parallel =>
    have hPre : PreS P seq1.size seq2.size (initMem seq1.size seq2.size : MemS) := by
      refine ⟨rfl, fun i _ _ => Or.inl (initMemS_pe _ _ i), ?_, by show (0 : Int) ≤ 0; omega, Or.inr ?_⟩
      · refine ⟨?_, ?_, ?_⟩ <;> simp [initMem] <;> omega
      · refine ⟨0, seq1.size, 0, seq2.size, rfl, rfl, rfl, rfl, ?_, ?_, ?_⟩
        · exact ⟨[], P, [], by simp, rfl, rfl, by simpa using H.hA, by simpa using H.hB, rfl, rfl,
            Or.inl (by simp), Or.inl (by simp)⟩
        · show ((Array.replicate (max seq1.size seq2.size + 2) States.negInf).set! 0 oneHotA).getD 0 States.negInf
            = hotS .A
          simp [Array.getD]; rfl
        · show ((Array.replicate (max seq1.size seq2.size + 2) States.negInf).set! 0 oneHotA).getD 0 States.negInf
            = hotS .A
          simp [Array.getD]; rfl
    have heq := runner_eq_serial_optS U ap apE gpo gpe tgpe s seq1 seq2 seq1.size seq2.size P H
      (initMem seq1.size seq2.size : MemS).fuel _ hPre (by
        show ((seq1.size : Int) - 0).toNat + ((seq2.size : Int) - 0).toNat + 1 ≤
          ((seq1.size : Int) - 0).toNat + ((seq2.size : Int) - 0).toNat + 2
        omega)
    unfold RunOKS alnRun
    simp only
    rw [heq]
    exact hser

theorem dp_unswappedS (entry : Entry) (ap : AlnParam SoftF32) (ops : Operands SoftF32) (lenA lenB : Nat)
    (P : List Col) (hrun : RunOKS entry ap ops lenA lenB P)
    (hV : ValidCols P lenA lenB) (hadj : adjOK .A P = true) (h1 : 1 ≤ lenA) (h2 : 1 ≤ lenB) :
    ∃ codes, dpCodesS entry ap ops false lenA lenB lenA lenB = some codes ∧ codes.map Col.ofCode = P := by
  unfold dpCodesS
  simp only [hrun.1, hrun.2, Bool.false_eq_true, if_false]
  exact expandPath_pathFrom lenB P hadj hV.2.2 (by rw [hV.2.1]; exact h1) (both_mem_of_valid P _ _ hV hadj h1 h2)

/-- swapped operands: the controller works on `(b, a)`; `mirror_path_n` and `add_gap_info_to_path_n` give back `P` -/
theorem dp_swappedS (entry : Entry) (ap : AlnParam SoftF32) (ops : Operands SoftF32) (lenA lenB : Nat)
    (P : List Col) (hrun : RunOKS entry ap ops lenB lenA (P.map Col.swap))
    (hV : ValidCols P lenA lenB) (hadj : adjOK .A P = true) (h1 : 1 ≤ lenA) (h2 : 1 ≤ lenB) :
    ∃ codes, dpCodesS entry ap ops true lenB lenA lenA lenB = some codes ∧ codes.map Col.ofCode = P := by
  unfold dpCodesS
  simp only [hrun.1, hrun.2, Bool.false_eq_true, if_false, if_true]
  rw [mirrorPath_pathFrom _ lenA (by rw [consB_swap]; exact hV.2.1), map_swap_swap]
  exact expandPath_pathFrom lenB P hadj hV.2.2 (by rw [hV.2.1]; exact h1) (both_mem_of_valid P _ _ hV hadj h1 h2)

/-- the `K`-scaled sequence–sequence problem satisfies the standing assumptions of the binary32 optimality theorem; the binary32
slack (1000 units = 0.5 score units) is part of the tie bound and is not scaled -/
theorem optHypS_scaled (U : Nat) (ap : AlnParam SoftF32) (apE : AlnParam ExactScore) (hd : DyadicParam U ap apE)
    (gpo gpe tgpe : Int) (s : Nat → Nat → Int) (hap : ApOK apE gpo gpe tgpe s) (hgpo : 0 ≤ gpo) (hgpe : 0 ≤ gpe)
    (htgpe : 0 ≤ tgpe) (K : Nat) (hK1 : 1 ≤ K) (hK : K < 16777216) (hKU : K * U < 16777216)
    (a b : Array Nat) (P : List Col) (hV : ValidCols P a.size b.size) (hadj : adjOK .A P = true)
    (hsize : (K * U) * (a.size + b.size + 1) + b.size / 1000 + 1 < 16777216) (hlenB : b.size < 4194304)
    (hm : MarginK s gpo gpe tgpe a b P K (b.size + 1000)) :
    OptHypS (K * U) (scaleParamS ap K) (scaleParam apE K) ((K : Int) * gpo) ((K : Int) * gpe) ((K : Int) * tgpe)
      (fun x y => (K : Int) * s x y) a b a.size b.size P := by
  refine ⟨dyadic_scale hd hK1 hK hKU, scaleParam_ok apE gpo gpe tgpe s hap K, Int.mul_nonneg (Int.natCast_nonneg K) hgpo,
    Int.mul_nonneg (Int.natCast_nonneg K) hgpe, Int.mul_nonneg (Int.natCast_nonneg K) htgpe, hsize, hlenB, hadj, hV.2.1, hV.2.2,
    ?_⟩
  intro Q hQadj hQA hQB hne
  have h0 := hm Q ⟨adjOK_noskip _ _ hQadj, hQA, hQB⟩ hQadj hne
  have e : ((b.size + 1000 : Nat) : Int) = (b.size : Int) + 1000 := by omega
  rw [e] at h0
  have := scaled_margin K gpo gpe tgpe s _ _ P Q ((b.size : Int) + 1000) h0
  rw [C07_walk_eq_scoreST, C07_walk_eq_scoreST]
  show _ < _ - _ - max 0 (max ((K : Int) * tgpe - K * gpe) (K * tgpe - K * gpo)) - max 0 ((K : Int) * gpe - K * tgpe)
  omega

theorem optHypS_plain (U : Nat) (ap : AlnParam SoftF32) (apE : AlnParam ExactScore) (hd : DyadicParam U ap apE)
    (gpo gpe tgpe : Int) (s : Nat → Nat → Int) (hap : ApOK apE gpo gpe tgpe s) (hgpo : 0 ≤ gpo) (hgpe : 0 ≤ gpe)
    (htgpe : 0 ≤ tgpe) (a b : Array Nat) (P : List Col) (hV : ValidCols P a.size b.size) (hadj : adjOK .A P = true)
    (hsize : U * (a.size + b.size + 1) + b.size / 1000 + 1 < 16777216) (hlenB : b.size < 4194304)
    (hm : MarginK s gpo gpe tgpe a b P 1 (b.size + 1000)) :
    OptHypS U ap apE gpo gpe tgpe s a b a.size b.size P := by
  refine ⟨hd, hap, hgpo, hgpe, htgpe, hsize, hlenB, hadj, hV.2.1, hV.2.2, ?_⟩
  intro Q hQadj hQA hQB hne
  have := hm Q ⟨adjOK_noskip _ _ hQadj, hQA, hQB⟩ hQadj hne
  rw [C07_walk_eq_scoreST, C07_walk_eq_scoreST]
  show _ < _ - _ - max 0 (max (tgpe - gpe) (tgpe - gpo)) - max 0 (gpe - tgpe)
  have e : ((b.size + 1000 : Nat) : Int) = (b.size : Int) + 1000 := by omega
  rw [e] at this
  simp only [Int.natCast_one, Int.one_mul] at this
  omega

/-- the size conditions of the binary32 theorems for the problem `(a, b)` in either orientation, scale `K` -/
def SizeOKS (K U : Nat) (a b : Array Nat) : Prop :=
  (K * U) * (a.size + b.size + 1) + max a.size b.size / 1000 + 1 < 16777216 ∧ max a.size b.size < 4194304

theorem SizeOKS.ab {K U : Nat} {a b : Array Nat} (h : SizeOKS K U a b) :
    (K * U) * (a.size + b.size + 1) + b.size / 1000 + 1 < 16777216 ∧ b.size < 4194304 := by
  obtain ⟨h1, h2⟩ := h
  have : b.size / 1000 ≤ max a.size b.size / 1000 := Nat.div_le_div_right (by omega)
  exact ⟨by omega, by omega⟩

theorem SizeOKS.ba {K U : Nat} {a b : Array Nat} (h : SizeOKS K U a b) :
    (K * U) * (b.size + a.size + 1) + a.size / 1000 + 1 < 16777216 ∧ a.size < 4194304 := by
  obtain ⟨h1, h2⟩ := h
  have : a.size / 1000 ≤ max a.size b.size / 1000 := Nat.div_le_div_right (by omega)
  rw [Nat.add_comm b.size a.size]
  exact ⟨by omega, by omega⟩

theorem adjOK_swapA (P : List Col) (hadj : adjOK .A P = true) : adjOK .A (P.map Col.swap) = true := by
  have := adjOK_swap .A P
  simp only [Kind.swap] at this
  rw [this]; exact hadj

/-- **sequence – sequence as `do_align` runs it, binary32** (`a` is the row dimension iff `len_a < len_b`) -/
theorem C07Soft_doAlign_seqseq_opt (entry : Entry) (U : Nat) (ap : AlnParam SoftF32) (apE : AlnParam ExactScore)
    (hd : DyadicParam U ap apE) (gpo gpe tgpe : Int) (s : Nat → Nat → Int)
    (hap : ApOK apE gpo gpe tgpe s) (hgpo : 0 ≤ gpo) (hgpe : 0 ≤ gpe) (htgpe : 0 ≤ tgpe) (hsym : ∀ x y, s x y = s y x)
    (a b : Array Nat) (h1A : 1 ≤ a.size) (h1B : 1 ≤ b.size) (hsz : SizeOKS 1 U a b)
    (P : List Col) (hV : ValidCols P a.size b.size) (hadj : adjOK .A P = true)
    (hm : MarginK s gpo gpe tgpe a b P 1 (max a.size b.size + 1000)) :
    ∃ codes, (if a.size < b.size then dpCodesS entry ap (.seqseq a b) false a.size b.size a.size b.size
        else dpCodesS entry ap (.seqseq b a) true b.size a.size a.size b.size) = some codes ∧
      codes.map Col.ofCode = P := by
  have hab := hsz.ab
  have hba := hsz.ba
  rw [Nat.one_mul] at hab hba
  by_cases hlt : a.size < b.size
  · rw [if_pos hlt]
    exact dp_unswappedS entry ap _ _ _ P (ss_runOKS entry U ap apE gpo gpe tgpe s a b P
      (optHypS_plain U ap apE hd gpo gpe tgpe s hap hgpo hgpe htgpe a b P hV hadj hab.1 hab.2 (hm.mono (by omega))))
      hV hadj h1A h1B
  · rw [if_neg hlt]
    exact dp_swappedS entry ap _ _ _ P (ss_runOKS entry U ap apE gpo gpe tgpe s b a _
      (optHypS_plain U ap apE hd gpo gpe tgpe s hap hgpo hgpe htgpe b a _ (validCols_swap _ _ _ hV) (adjOK_swapA P hadj)
        hba.1 hba.2 ((hm.mono (by omega)).swap hsym))) hV hadj h1A h1B

/-- the binary32 controller on a profile of `k` copies (rows) and a sequence (columns) writes the path of `P` -/
theorem sp_runOKS (entry : Entry) (U : Nat) (ap : AlnParam SoftF32) (apE : AlnParam ExactScore)
    (hd : DyadicParam U ap apE) (gpo gpe tgpe : Int) (s : Nat → Nat → Int)
    (hap : ApOK apE gpo gpe tgpe s) (hgpo : 0 ≤ gpo) (hgpe : 0 ≤ gpe) (htgpe : 0 ≤ tgpe)
    (prof : Array SoftF32) (seqA seq2 : Array Nat) (k : Nat) (hk1 : 1 ≤ k) (hk : k < 16777216) (hkU : k * U < 16777216)
    (hP : ProfOKS prof seqA k 1 (gpo / 1000) (gpe / 1000) (tgpe / 1000) (fun x y => s x y / 1000))
    (h2 : ∀ j, seq2.getD j 0 < 23)
    (hsize : (k * U) * (seqA.size + seq2.size + 1) + seq2.size / 1000 + 1 < 16777216) (hlenB : seq2.size < 4194304)
    (P : List Col) (hV : ValidCols P seqA.size seq2.size) (hadj : adjOK .A P = true)
    (hm : MarginK s gpo gpe tgpe seqA seq2 P k (seq2.size + 1000)) :
    RunOKS entry ap (.seqprof prof seq2 k) seqA.size seq2.size P := by
  have hK := C07Soft_sp_kernels_scaled U ap apE hd gpo gpe tgpe s hap hgpo hgpe htgpe prof seqA seq2 k hk1 hk hkU hP h2 seq2.size
  have := ss_runOKS entry (k * U) (scaleParamS ap k) (scaleParam apE k) _ _ _ _ seqA seq2 P
    (optHypS_scaled U ap apE hd gpo gpe tgpe s hap hgpo hgpe htgpe k hk1 hk hkU seqA seq2 P hV hadj hsize hlenB hm)
  unfold RunOKS alnRun at this ⊢
  simp only at this ⊢
  rw [hK]
  exact this

theorem pp_runOKS (entry : Entry) (U : Nat) (ap : AlnParam SoftF32) (apE : AlnParam ExactScore)
    (hd : DyadicParam U ap apE) (gpo gpe tgpe : Int) (s : Nat → Nat → Int)
    (hap : ApOK apE gpo gpe tgpe s) (hgpo : 0 ≤ gpo) (hgpe : 0 ≤ gpe) (htgpe : 0 ≤ tgpe) (hsym : ∀ x y, s x y = s y x)
    (prof1 prof2 : Array SoftF32) (seqA seqB : Array Nat) (k m : Nat) (hk1 : 1 ≤ k) (hm1 : 1 ≤ m)
    (hKU : k * m * U < 16777216) (hK : k * m < 8388608)
    (hP1 : ProfOKS prof1 seqA k m (gpo / 1000) (gpe / 1000) (tgpe / 1000) (fun x y => s x y / 1000))
    (hP2 : ProfOKS prof2 seqB m k (gpo / 1000) (gpe / 1000) (tgpe / 1000) (fun x y => s x y / 1000))
    (hA23 : ∀ i, seqA.getD i 0 < 23)
    (hsize : (k * m * U) * (seqA.size + seqB.size + 1) + seqB.size / 1000 + 1 < 16777216) (hlenB : seqB.size < 4194304)
    (P : List Col) (hV : ValidCols P seqA.size seqB.size) (hadj : adjOK .A P = true)
    (hm : MarginK s gpo gpe tgpe seqA seqB P (k * m) (seqB.size + 1000)) :
    RunOKS entry ap (.profprof prof1 prof2) seqA.size seqB.size P := by
  have hKe := C07Soft_pp_kernels_scaled U ap apE hd gpo gpe tgpe s hap hgpo hgpe htgpe hsym prof1 prof2 seqA seqB k m hk1 hm1
    hKU hK hP1 hP2 hA23
  have := ss_runOKS entry (k * m * U) (scaleParamS ap (k * m)) (scaleParam apE (k * m)) _ _ _ _ seqA seqB P
    (optHypS_scaled U ap apE hd gpo gpe tgpe s hap hgpo hgpe htgpe (k * m) (Nat.mul_pos hk1 hm1) (by omega) hKU seqA seqB P hV
      hadj hsize hlenB hm)
  unfold RunOKS alnRun at this ⊢
  simp only at this ⊢
  rw [hKe]
  exact this

/-- **sequence – profile as `do_align` runs it, binary32, the group on side `a`** (`k > 1` copies of `a` built by diagonal merges,
one sequence `b`): operands `(.seqprof pa b k)`, not swapped -/
theorem C07Soft_doAlign_profile_seq_opt (entry : Entry) (U : Nat) (ap : AlnParam SoftF32) (apE : AlnParam ExactScore)
    (hd : DyadicParam U ap apE) (gpo gpe tgpe : Int) (s : Nat → Nat → Int)
    (hap : ApOK apE gpo gpe tgpe s) (hgpo : 0 ≤ gpo) (hgpe : 0 ≤ gpe) (htgpe : 0 ≤ tgpe)
    (a b : Array Nat) (ha23 : ∀ i, a.getD i 0 < 23) (hb23 : ∀ j, b.getD j 0 < 23) (h1A : 1 ≤ a.size) (h1B : 1 ≤ b.size)
    (pa : Array SoftF32) (k : Nat) (hpa : BuiltS ap a pa k) (hk : k < 8388608) (hkU : k * U < 16777216)
    (hsz : SizeOKS k U a b)
    (P : List Col) (hV : ValidCols P a.size b.size) (hadj : adjOK .A P = true)
    (hm : MarginK s gpo gpe tgpe a b P k (b.size + 1000)) :
    ∃ codes, dpCodesS entry ap (.seqprof (setGapPenalties pa 1) b k) false a.size b.size a.size b.size = some codes ∧
      codes.map Col.ofCode = P :=
  dp_unswappedS entry ap _ _ _ P (sp_runOKS entry U ap apE hd gpo gpe tgpe s hap hgpo hgpe htgpe _ a b k (builtS_pos hpa)
    (by omega) hkU
    (C07Soft_profile_of_copies U ap apE hd gpo gpe tgpe s hap hgpo hgpe htgpe a ha23 pa k 1 hpa (Nat.le_refl _)
      (by rw [Nat.mul_one]; exact hkU) (by rw [Nat.mul_one]; exact hk))
    hb23 hsz.ab.1 hsz.ab.2 P hV hadj hm) hV hadj h1A h1B

/-- **sequence – profile, binary32, the group on side `b`** (one sequence `a`, `k > 1` copies of `b`): operands
`(.seqprof pb a k)`, swapped, the path is mirrored; symmetric matrix -/
theorem C07Soft_doAlign_seq_profile_opt (entry : Entry) (U : Nat) (ap : AlnParam SoftF32) (apE : AlnParam ExactScore)
    (hd : DyadicParam U ap apE) (gpo gpe tgpe : Int) (s : Nat → Nat → Int)
    (hap : ApOK apE gpo gpe tgpe s) (hgpo : 0 ≤ gpo) (hgpe : 0 ≤ gpe) (htgpe : 0 ≤ tgpe) (hsym : ∀ x y, s x y = s y x)
    (a b : Array Nat) (ha23 : ∀ i, a.getD i 0 < 23) (hb23 : ∀ j, b.getD j 0 < 23) (h1A : 1 ≤ a.size) (h1B : 1 ≤ b.size)
    (pb : Array SoftF32) (k : Nat) (hpb : BuiltS ap b pb k) (hk : k < 8388608) (hkU : k * U < 16777216)
    (hsz : SizeOKS k U a b)
    (P : List Col) (hV : ValidCols P a.size b.size) (hadj : adjOK .A P = true)
    (hm : MarginK s gpo gpe tgpe a b P k (a.size + 1000)) :
    ∃ codes, dpCodesS entry ap (.seqprof (setGapPenalties pb 1) a k) true b.size a.size a.size b.size = some codes ∧
      codes.map Col.ofCode = P :=
  dp_swappedS entry ap _ _ _ P (sp_runOKS entry U ap apE hd gpo gpe tgpe s hap hgpo hgpe htgpe _ b a k (builtS_pos hpb)
    (by omega) hkU
    (C07Soft_profile_of_copies U ap apE hd gpo gpe tgpe s hap hgpo hgpe htgpe b hb23 pb k 1 hpb (Nat.le_refl _)
      (by rw [Nat.mul_one]; exact hkU) (by rw [Nat.mul_one]; exact hk))
    ha23 hsz.ba.1 hsz.ba.2 _ (validCols_swap _ _ _ hV) (adjOK_swapA P hadj) (hm.swap hsym)) hV hadj h1A h1B

/-- **profile – profile as `do_align` runs it, binary32** (`k` copies of `a`, `m` copies of `b`, both built by diagonal merges; `a`
is the row dimension iff `len_a < len_b`); symmetric matrix -/
theorem C07Soft_doAlign_profile_profile_opt (entry : Entry) (U : Nat) (ap : AlnParam SoftF32) (apE : AlnParam ExactScore)
    (hd : DyadicParam U ap apE) (gpo gpe tgpe : Int) (s : Nat → Nat → Int)
    (hap : ApOK apE gpo gpe tgpe s) (hgpo : 0 ≤ gpo) (hgpe : 0 ≤ gpe) (htgpe : 0 ≤ tgpe) (hsym : ∀ x y, s x y = s y x)
    (a b : Array Nat) (ha23 : ∀ i, a.getD i 0 < 23) (hb23 : ∀ j, b.getD j 0 < 23) (h1A : 1 ≤ a.size) (h1B : 1 ≤ b.size)
    (pa pb : Array SoftF32) (k m : Nat) (hpa : BuiltS ap a pa k) (hpb : BuiltS ap b pb m)
    (hK : k * m < 8388608) (hKU : k * m * U < 16777216) (hsz : SizeOKS (k * m) U a b)
    (P : List Col) (hV : ValidCols P a.size b.size) (hadj : adjOK .A P = true)
    (hm : MarginK s gpo gpe tgpe a b P (k * m) (max a.size b.size + 1000)) :
    ∃ codes, (if a.size < b.size then
          dpCodesS entry ap (.profprof (setGapPenalties pa m) (setGapPenalties pb k)) false a.size b.size a.size b.size
        else
          dpCodesS entry ap (.profprof (setGapPenalties pb k) (setGapPenalties pa m)) true b.size a.size a.size b.size)
        = some codes ∧ codes.map Col.ofCode = P := by
  have hk1 := builtS_pos hpa
  have hm1 := builtS_pos hpb
  have hPa := C07Soft_profile_of_copies U ap apE hd gpo gpe tgpe s hap hgpo hgpe htgpe a ha23 pa k m hpa hm1 hKU hK
  have hPb := C07Soft_profile_of_copies U ap apE hd gpo gpe tgpe s hap hgpo hgpe htgpe b hb23 pb m k hpb hk1
    (by rw [Nat.mul_comm m k]; exact hKU) (by rw [Nat.mul_comm m k]; exact hK)
  by_cases hlt : a.size < b.size
  · rw [if_pos hlt]
    exact dp_unswappedS entry ap _ _ _ P (pp_runOKS entry U ap apE hd gpo gpe tgpe s hap hgpo hgpe htgpe hsym _ _ a b k m hk1
      hm1 hKU hK hPa hPb ha23 hsz.ab.1 hsz.ab.2 P hV hadj (hm.mono (by omega))) hV hadj h1A h1B
  · rw [if_neg hlt]
    have hba := hsz.ba
    refine dp_swappedS entry ap _ _ _ P (pp_runOKS entry U ap apE hd gpo gpe tgpe s hap hgpo hgpe htgpe hsym _ _ b a m k hm1
      hk1 (by rw [Nat.mul_comm m k]; exact hKU) (by rw [Nat.mul_comm m k]; exact hK) hPb hPa hb23
      (by rw [Nat.mul_comm m k]; exact hba.1) hba.2 _ (validCols_swap _ _ _ hV) (adjOK_swapA P hadj) ?_) hV hadj h1A h1B
    rw [Nat.mul_comm m k]
    exact (hm.mono (by omega)).swap hsym

/-! ## C08 on binary32 for groups: `k` copies against `m` copies of the same sequence -/

/-- **`k` copies against `m` copies of the same sequence, binary32** (profile – profile; equal lengths, so `do_align` exchanges the
operands and mirrors the path): the result is the gap-free diagonal.  The residue-wise condition is that of
`C08Soft_identical_pair_diag` (`|seq| + 1000` for the tie-break term and the binary32 slack) -/
theorem C08Soft_identical_groups_diag (entry : Entry) (U : Nat) (ap : AlnParam SoftF32) (apE : AlnParam ExactScore)
    (hd : DyadicParam U ap apE) (gpo gpe tgpe : Int) (s : Nat → Nat → Int)
    (hap : ApOK apE gpo gpe tgpe s) (hgpo : 0 ≤ gpo) (hgpe : 0 ≤ gpe) (htgpe : 0 ≤ tgpe) (hsym : ∀ x y, s x y = s y x)
    (seq : Array Nat) (h23 : ∀ i, seq.getD i 0 < 23) (h1 : 1 ≤ seq.size)
    (pa pb : Array SoftF32) (k m : Nat) (hpa : BuiltS ap seq pa k) (hpb : BuiltS ap seq pb m)
    (hK : k * m < 8388608) (hKU : k * m * U < 16777216)
    (hsize : (k * m * U) * (seq.size + seq.size + 1) + seq.size / 1000 + 1 < 16777216) (hlen : seq.size < 4194304)
    (hdg : ∀ x ∈ seq.toList,
      max 0 (max (tgpe - gpe) (tgpe - gpo)) + max 0 (gpe - tgpe) + ((seq.size : Int) + 1000) <
        s x x + 2 * min (min (2 * gpo) gpe) tgpe)
    (h2 : ∀ x ∈ seq.toList, ∀ y ∈ seq.toList, 2 * s x y ≤ s x x + s y y) :
    ∃ codes, dpCodesS entry ap (.profprof (setGapPenalties pb k) (setGapPenalties pa m)) true seq.size seq.size
        seq.size seq.size = some codes ∧ codes.map Col.ofCode = List.replicate seq.size .both := by
  have hk1 := builtS_pos hpa
  have hm1 := builtS_pos hpb
  have hmarg : MarginK s gpo gpe tgpe seq seq (diagCols seq.size) (k * m) (max seq.size seq.size + 1000) := by
    rw [Nat.max_self]
    exact diag_marginK gpo gpe tgpe s hgpe seq (k * m) (seq.size + 1000) (Nat.mul_pos hk1 hm1)
      (fun x hx => by
        have e : ((seq.size + 1000 : Nat) : Int) = (seq.size : Int) + 1000 := by omega
        rw [e]; exact hdg x hx) h2
  have := C07Soft_doAlign_profile_profile_opt entry U ap apE hd gpo gpe tgpe s hap hgpo hgpe htgpe hsym seq seq h23 h23 h1 h1
    pa pb k m hpa hpb hK hKU ⟨by rw [Nat.max_self]; exact hsize, by rw [Nat.max_self]; exact hlen⟩
    (diagCols seq.size) (validCols_diag _) (adjOK_diag _ _) hmarg
  rw [if_neg (Nat.lt_irrefl _)] at this
  exact this

/-- **one sequence against `k` copies of itself, binary32** (sequence – profile, group on side `b`) -/
theorem C08Soft_identical_seq_group_diag (entry : Entry) (U : Nat) (ap : AlnParam SoftF32) (apE : AlnParam ExactScore)
    (hd : DyadicParam U ap apE) (gpo gpe tgpe : Int) (s : Nat → Nat → Int)
    (hap : ApOK apE gpo gpe tgpe s) (hgpo : 0 ≤ gpo) (hgpe : 0 ≤ gpe) (htgpe : 0 ≤ tgpe) (hsym : ∀ x y, s x y = s y x)
    (seq : Array Nat) (h23 : ∀ i, seq.getD i 0 < 23) (h1 : 1 ≤ seq.size)
    (pb : Array SoftF32) (k : Nat) (hpb : BuiltS ap seq pb k) (hk : k < 8388608) (hkU : k * U < 16777216)
    (hsize : (k * U) * (seq.size + seq.size + 1) + seq.size / 1000 + 1 < 16777216) (hlen : seq.size < 4194304)
    (hdg : ∀ x ∈ seq.toList,
      max 0 (max (tgpe - gpe) (tgpe - gpo)) + max 0 (gpe - tgpe) + ((seq.size : Int) + 1000) <
        s x x + 2 * min (min (2 * gpo) gpe) tgpe)
    (h2 : ∀ x ∈ seq.toList, ∀ y ∈ seq.toList, 2 * s x y ≤ s x x + s y y) :
    ∃ codes, dpCodesS entry ap (.seqprof (setGapPenalties pb 1) seq k) true seq.size seq.size seq.size seq.size =
        some codes ∧ codes.map Col.ofCode = List.replicate seq.size .both :=
  C07Soft_doAlign_seq_profile_opt entry U ap apE hd gpo gpe tgpe s hap hgpo hgpe htgpe hsym seq seq h23 h23 h1 h1 pb k hpb hk
    hkU ⟨by rw [Nat.max_self]; exact hsize, by rw [Nat.max_self]; exact hlen⟩
    (diagCols seq.size) (validCols_diag _) (adjOK_diag _ _)
    (diag_marginK gpo gpe tgpe s hgpe seq k (seq.size + 1000) (builtS_pos hpb)
      (fun x hx => by
        have e : ((seq.size + 1000 : Nat) : Int) = (seq.size : Int) + 1000 := by omega
        rw [e]; exact hdg x hx) h2)

/-- **`k` copies against one sequence, binary32** (group on side `a`) -/
theorem C08Soft_identical_group_seq_diag (entry : Entry) (U : Nat) (ap : AlnParam SoftF32) (apE : AlnParam ExactScore)
    (hd : DyadicParam U ap apE) (gpo gpe tgpe : Int) (s : Nat → Nat → Int)
    (hap : ApOK apE gpo gpe tgpe s) (hgpo : 0 ≤ gpo) (hgpe : 0 ≤ gpe) (htgpe : 0 ≤ tgpe)
    (seq : Array Nat) (h23 : ∀ i, seq.getD i 0 < 23) (h1 : 1 ≤ seq.size)
    (pa : Array SoftF32) (k : Nat) (hpa : BuiltS ap seq pa k) (hk : k < 8388608) (hkU : k * U < 16777216)
    (hsize : (k * U) * (seq.size + seq.size + 1) + seq.size / 1000 + 1 < 16777216) (hlen : seq.size < 4194304)
    (hdg : ∀ x ∈ seq.toList,
      max 0 (max (tgpe - gpe) (tgpe - gpo)) + max 0 (gpe - tgpe) + ((seq.size : Int) + 1000) <
        s x x + 2 * min (min (2 * gpo) gpe) tgpe)
    (h2 : ∀ x ∈ seq.toList, ∀ y ∈ seq.toList, 2 * s x y ≤ s x x + s y y) :
    ∃ codes, dpCodesS entry ap (.seqprof (setGapPenalties pa 1) seq k) false seq.size seq.size seq.size seq.size =
        some codes ∧ codes.map Col.ofCode = List.replicate seq.size .both :=
  C07Soft_doAlign_profile_seq_opt entry U ap apE hd gpo gpe tgpe s hap hgpo hgpe htgpe seq seq h23 h23 h1 h1 pa k hpa hk
    hkU ⟨by rw [Nat.max_self]; exact hsize, by rw [Nat.max_self]; exact hlen⟩
    (diagCols seq.size) (validCols_diag _) (adjOK_diag _ _)
    (diag_marginK gpo gpe tgpe s hgpe seq k (seq.size + 1000) (builtS_pos hpa)
      (fun x hx => by
        have e : ((seq.size + 1000 : Nat) : Int) = (seq.size : Int) + 1000 := by omega
        rw [e]; exact hdg x hx) h2)

/-! ### for a dyadic row of the generated table; default protein and DNA-internal parameters -/

theorem diagCondS_hyp (m : List (List Int)) (gpo gpe tgpe : Int) (hge : gpe ≤ 2 * gpo) (seq : Array Nat)
    (hc : diagCondS m gpo gpe tgpe seq.toList = true) :
    (∀ x ∈ seq.toList,
      max 0 (max (2 * tgpe - 2 * gpe) (2 * tgpe - 2 * gpo)) + max 0 (2 * gpe - 2 * tgpe) + ((seq.size : Int) + 1000) <
        exactSub m x x + 2 * min (min (2 * (2 * gpo)) (2 * gpe)) (2 * tgpe)) ∧
    (∀ x ∈ seq.toList, ∀ y ∈ seq.toList, 2 * exactSub m x y ≤ exactSub m x x + exactSub m y y) := by
  unfold diagCondS at hc
  simp only [List.all_eq_true, Bool.and_eq_true, decide_eq_true_eq, Array.length_toList] at hc
  refine ⟨?_, fun x hx y hy => (hc x hx).2 y hy⟩
  intro x hx
  have := (hc x hx).1
  have e : min (min (2 * (2 * gpo)) (2 * gpe)) (2 * tgpe) = min (2 * gpe) (2 * tgpe) := by omega
  rw [e]; exact this

/-- **`k` against `m` copies, for a dyadic row of the generated table** (side conditions as in `C08Soft_identical_pair_diag_table`;
`hsymm`: the matrix of the row is symmetric) -/
theorem C08Soft_identical_groups_diag_table (entry : Entry) (U : Nat) (ap : AlnParam SoftF32) (mt : List (List Int))
    (gpo gpe tgpe : Int) (hd : DyadicParam U ap (exactParam mt gpo gpe tgpe))
    (hgpo : 0 ≤ gpo) (hgpe : 0 ≤ gpe) (htgpe : 0 ≤ tgpe) (hge : gpe ≤ 2 * gpo)
    (hsymm : ∀ x y, exactSub mt x y = exactSub mt y x)
    (seq : Array Nat) (h23 : ∀ i, seq.getD i 0 < 23) (h1 : 1 ≤ seq.size)
    (pa pb : Array SoftF32) (k m : Nat) (hpa : BuiltS ap seq pa k) (hpb : BuiltS ap seq pb m)
    (hK : k * m < 8388608) (hKU : k * m * U < 16777216)
    (hsize : (k * m * U) * (seq.size + seq.size + 1) + seq.size / 1000 + 1 < 16777216) (hlen : seq.size < 4194304)
    (hc : diagCondS mt gpo gpe tgpe seq.toList = true) :
    ∃ codes, dpCodesS entry ap (.profprof (setGapPenalties pb k) (setGapPenalties pa m)) true seq.size seq.size
        seq.size seq.size = some codes ∧ codes.map Col.ofCode = List.replicate seq.size .both :=
  C08Soft_identical_groups_diag entry U ap _ hd (2 * gpo) (2 * gpe) (2 * tgpe) (exactSub mt) (exactParam_ok mt gpo gpe tgpe)
    (by omega) (by omega) (by omega) hsymm seq h23 h1 pa pb k m hpa hpb hK hKU hsize hlen
    (diagCondS_hyp mt gpo gpe tgpe hge seq hc).1 (diagCondS_hyp mt gpo gpe tgpe hge seq hc).2

theorem C08Soft_identical_seq_group_diag_table (entry : Entry) (U : Nat) (ap : AlnParam SoftF32) (mt : List (List Int))
    (gpo gpe tgpe : Int) (hd : DyadicParam U ap (exactParam mt gpo gpe tgpe))
    (hgpo : 0 ≤ gpo) (hgpe : 0 ≤ gpe) (htgpe : 0 ≤ tgpe) (hge : gpe ≤ 2 * gpo)
    (hsymm : ∀ x y, exactSub mt x y = exactSub mt y x)
    (seq : Array Nat) (h23 : ∀ i, seq.getD i 0 < 23) (h1 : 1 ≤ seq.size)
    (pb : Array SoftF32) (k : Nat) (hpb : BuiltS ap seq pb k) (hk : k < 8388608) (hkU : k * U < 16777216)
    (hsize : (k * U) * (seq.size + seq.size + 1) + seq.size / 1000 + 1 < 16777216) (hlen : seq.size < 4194304)
    (hc : diagCondS mt gpo gpe tgpe seq.toList = true) :
    ∃ codes, dpCodesS entry ap (.seqprof (setGapPenalties pb 1) seq k) true seq.size seq.size seq.size seq.size =
        some codes ∧ codes.map Col.ofCode = List.replicate seq.size .both :=
  C08Soft_identical_seq_group_diag entry U ap _ hd (2 * gpo) (2 * gpe) (2 * tgpe) (exactSub mt) (exactParam_ok mt gpo gpe tgpe)
    (by omega) (by omega) (by omega) hsymm seq h23 h1 pb k hpb hk hkU hsize hlen
    (diagCondS_hyp mt gpo gpe tgpe hge seq hc).1 (diagCondS_hyp mt gpo gpe tgpe hge seq hc).2

theorem C08Soft_identical_group_seq_diag_table (entry : Entry) (U : Nat) (ap : AlnParam SoftF32) (mt : List (List Int))
    (gpo gpe tgpe : Int) (hd : DyadicParam U ap (exactParam mt gpo gpe tgpe))
    (hgpo : 0 ≤ gpo) (hgpe : 0 ≤ gpe) (htgpe : 0 ≤ tgpe) (hge : gpe ≤ 2 * gpo)
    (seq : Array Nat) (h23 : ∀ i, seq.getD i 0 < 23) (h1 : 1 ≤ seq.size)
    (pa : Array SoftF32) (k : Nat) (hpa : BuiltS ap seq pa k) (hk : k < 8388608) (hkU : k * U < 16777216)
    (hsize : (k * U) * (seq.size + seq.size + 1) + seq.size / 1000 + 1 < 16777216) (hlen : seq.size < 4194304)
    (hc : diagCondS mt gpo gpe tgpe seq.toList = true) :
    ∃ codes, dpCodesS entry ap (.seqprof (setGapPenalties pa 1) seq k) false seq.size seq.size seq.size seq.size =
        some codes ∧ codes.map Col.ofCode = List.replicate seq.size .both :=
  C08Soft_identical_group_seq_diag entry U ap _ hd (2 * gpo) (2 * gpe) (2 * tgpe) (exactSub mt) (exactParam_ok mt gpo gpe tgpe)
    (by omega) (by omega) (by omega) seq h23 h1 pa k hpa hk hkU hsize hlen
    (diagCondS_hyp mt gpo gpe tgpe hge seq hc).1 (diagCondS_hyp mt gpo gpe tgpe hge seq hc).2

/-- the DNA matrix of the table is symmetric -/
theorem mat3_symm : ∀ x y, exactSub Gen.mat3 x y = exactSub Gen.mat3 y x :=
  exactSub_symm Gen.mat3 (by decide +kernel)

theorem dyadic_protein_any (t : Int) (ht : t = 3 ∨ ¬ (0 ≤ t ∧ t ≤ 4)) :
    DyadicParam 32 (softParamOf 0 t) (exactParam Gen.mat0 5500 2000 1000) := by
  rcases ht with rfl | ht
  · exact C07Soft_dyadic_protein
  · exact C07Soft_dyadic_protein_undefined t ht

/-- **default protein parameters in binary32** (type 3 or undefined): `k` against `m` identical copies.  With `U = 32` the size
condition reads `k·m·32·(2·|seq| + 1) + |seq|/1000 + 1 < 2²⁴` (e.g. `k·m ≤ 64` and `|seq| ≤ 4000`) -/
theorem C08Soft_identical_groups_diag_protein (entry : Entry) (t : Int) (ht : t = 3 ∨ ¬ (0 ≤ t ∧ t ≤ 4))
    (seq : Array Nat) (h23 : ∀ i, seq.getD i 0 < 23) (h1 : 1 ≤ seq.size)
    (pa pb : Array SoftF32) (k m : Nat) (hpa : BuiltS (softParamOf 0 t) seq pa k) (hpb : BuiltS (softParamOf 0 t) seq pb m)
    (hsize : (k * m * 32) * (seq.size + seq.size + 1) + seq.size / 1000 + 1 < 16777216)
    (hc : diagCondS Gen.mat0 5500 2000 1000 seq.toList = true) :
    ∃ codes, dpCodesS entry (softParamOf 0 t) (.profprof (setGapPenalties pb k) (setGapPenalties pa m)) true seq.size seq.size
        seq.size seq.size = some codes ∧ codes.map Col.ofCode = List.replicate seq.size .both := by
  have hb : k * m * 32 * 3 ≤ (k * m * 32) * (seq.size + seq.size + 1) := Nat.mul_le_mul_left _ (by omega)
  have hs : 32 * (seq.size + seq.size + 1) ≤ (k * m * 32) * (seq.size + seq.size + 1) :=
    Nat.mul_le_mul_right _ (by have := Nat.mul_pos (builtS_pos hpa) (builtS_pos hpb); omega)
  exact C08Soft_identical_groups_diag_table entry 32 _ Gen.mat0 5500 2000 1000 (dyadic_protein_any t ht) (by decide) (by decide)
    (by decide) (by decide) mat0_symm seq h23 h1 pa pb k m hpa hpb (by omega) (by omega) hsize (by omega) hc

theorem C08Soft_identical_seq_group_diag_protein (entry : Entry) (t : Int) (ht : t = 3 ∨ ¬ (0 ≤ t ∧ t ≤ 4))
    (seq : Array Nat) (h23 : ∀ i, seq.getD i 0 < 23) (h1 : 1 ≤ seq.size)
    (pb : Array SoftF32) (k : Nat) (hpb : BuiltS (softParamOf 0 t) seq pb k)
    (hsize : (k * 32) * (seq.size + seq.size + 1) + seq.size / 1000 + 1 < 16777216)
    (hc : diagCondS Gen.mat0 5500 2000 1000 seq.toList = true) :
    ∃ codes, dpCodesS entry (softParamOf 0 t) (.seqprof (setGapPenalties pb 1) seq k) true seq.size seq.size seq.size seq.size =
        some codes ∧ codes.map Col.ofCode = List.replicate seq.size .both := by
  have hb : k * 32 * 3 ≤ (k * 32) * (seq.size + seq.size + 1) := Nat.mul_le_mul_left _ (by omega)
  have hs : 32 * (seq.size + seq.size + 1) ≤ (k * 32) * (seq.size + seq.size + 1) :=
    Nat.mul_le_mul_right _ (by have := builtS_pos hpb; omega)
  exact C08Soft_identical_seq_group_diag_table entry 32 _ Gen.mat0 5500 2000 1000 (dyadic_protein_any t ht) (by decide)
    (by decide) (by decide) (by decide) mat0_symm seq h23 h1 pb k hpb (by omega) (by omega) hsize (by omega) hc

theorem C08Soft_identical_group_seq_diag_protein (entry : Entry) (t : Int) (ht : t = 3 ∨ ¬ (0 ≤ t ∧ t ≤ 4))
    (seq : Array Nat) (h23 : ∀ i, seq.getD i 0 < 23) (h1 : 1 ≤ seq.size)
    (pa : Array SoftF32) (k : Nat) (hpa : BuiltS (softParamOf 0 t) seq pa k)
    (hsize : (k * 32) * (seq.size + seq.size + 1) + seq.size / 1000 + 1 < 16777216)
    (hc : diagCondS Gen.mat0 5500 2000 1000 seq.toList = true) :
    ∃ codes, dpCodesS entry (softParamOf 0 t) (.seqprof (setGapPenalties pa 1) seq k) false seq.size seq.size seq.size seq.size =
        some codes ∧ codes.map Col.ofCode = List.replicate seq.size .both := by
  have hb : k * 32 * 3 ≤ (k * 32) * (seq.size + seq.size + 1) := Nat.mul_le_mul_left _ (by omega)
  have hs : 32 * (seq.size + seq.size + 1) ≤ (k * 32) * (seq.size + seq.size + 1) :=
    Nat.mul_le_mul_right _ (by have := builtS_pos hpa; omega)
  exact C08Soft_identical_group_seq_diag_table entry 32 _ Gen.mat0 5500 2000 1000 (dyadic_protein_any t ht) (by decide)
    (by decide) (by decide) (by decide) seq h23 h1 pa k hpa (by omega) (by omega) hsize (by omega) hc

/-- **DNA-internal parameters in binary32** (type 1: match 5, mismatch −4, penalties 8 / 6 / 8).  (With the plain DNA penalties,
`tgpe = 0`, `diagCondS` fails for every sequence — see `Props/C07Soft.lean` — so there is no statement for them.) -/
theorem C08Soft_identical_groups_diag_dna_internal (entry : Entry)
    (seq : Array Nat) (h23 : ∀ i, seq.getD i 0 < 23) (h1 : 1 ≤ seq.size)
    (pa pb : Array SoftF32) (k m : Nat) (hpa : BuiltS (softParamOf 1 1) seq pa k) (hpb : BuiltS (softParamOf 1 1) seq pb m)
    (hsize : (k * m * 32) * (seq.size + seq.size + 1) + seq.size / 1000 + 1 < 16777216)
    (hc : diagCondS Gen.mat3 8000 6000 8000 seq.toList = true) :
    ∃ codes, dpCodesS entry (softParamOf 1 1) (.profprof (setGapPenalties pb k) (setGapPenalties pa m)) true seq.size seq.size
        seq.size seq.size = some codes ∧ codes.map Col.ofCode = List.replicate seq.size .both := by
  have hb : k * m * 32 * 3 ≤ (k * m * 32) * (seq.size + seq.size + 1) := Nat.mul_le_mul_left _ (by omega)
  have hs : 32 * (seq.size + seq.size + 1) ≤ (k * m * 32) * (seq.size + seq.size + 1) :=
    Nat.mul_le_mul_right _ (by have := Nat.mul_pos (builtS_pos hpa) (builtS_pos hpb); omega)
  exact C08Soft_identical_groups_diag_table entry 32 _ Gen.mat3 8000 6000 8000 C07Soft_dyadic_dna_internal (by decide) (by decide)
    (by decide) (by decide) mat3_symm seq h23 h1 pa pb k m hpa hpb (by omega) (by omega) hsize (by omega) hc

theorem C08Soft_identical_seq_group_diag_dna_internal (entry : Entry)
    (seq : Array Nat) (h23 : ∀ i, seq.getD i 0 < 23) (h1 : 1 ≤ seq.size)
    (pb : Array SoftF32) (k : Nat) (hpb : BuiltS (softParamOf 1 1) seq pb k)
    (hsize : (k * 32) * (seq.size + seq.size + 1) + seq.size / 1000 + 1 < 16777216)
    (hc : diagCondS Gen.mat3 8000 6000 8000 seq.toList = true) :
    ∃ codes, dpCodesS entry (softParamOf 1 1) (.seqprof (setGapPenalties pb 1) seq k) true seq.size seq.size seq.size seq.size =
        some codes ∧ codes.map Col.ofCode = List.replicate seq.size .both := by
  have hb : k * 32 * 3 ≤ (k * 32) * (seq.size + seq.size + 1) := Nat.mul_le_mul_left _ (by omega)
  have hs : 32 * (seq.size + seq.size + 1) ≤ (k * 32) * (seq.size + seq.size + 1) :=
    Nat.mul_le_mul_right _ (by have := builtS_pos hpb; omega)
  exact C08Soft_identical_seq_group_diag_table entry 32 _ Gen.mat3 8000 6000 8000 C07Soft_dyadic_dna_internal (by decide)
    (by decide) (by decide) (by decide) mat3_symm seq h23 h1 pb k hpb (by omega) (by omega) hsize (by omega) hc

theorem C08Soft_identical_group_seq_diag_dna_internal (entry : Entry)
    (seq : Array Nat) (h23 : ∀ i, seq.getD i 0 < 23) (h1 : 1 ≤ seq.size)
    (pa : Array SoftF32) (k : Nat) (hpa : BuiltS (softParamOf 1 1) seq pa k)
    (hsize : (k * 32) * (seq.size + seq.size + 1) + seq.size / 1000 + 1 < 16777216)
    (hc : diagCondS Gen.mat3 8000 6000 8000 seq.toList = true) :
    ∃ codes, dpCodesS entry (softParamOf 1 1) (.seqprof (setGapPenalties pa 1) seq k) false seq.size seq.size seq.size seq.size =
        some codes ∧ codes.map Col.ofCode = List.replicate seq.size .both := by
  have hb : k * 32 * 3 ≤ (k * 32) * (seq.size + seq.size + 1) := Nat.mul_le_mul_left _ (by omega)
  have hs : 32 * (seq.size + seq.size + 1) ≤ (k * 32) * (seq.size + seq.size + 1) :=
    Nat.mul_le_mul_right _ (by have := builtS_pos hpa; omega)
  exact C08Soft_identical_group_seq_diag_table entry 32 _ Gen.mat3 8000 6000 8000 C07Soft_dyadic_dna_internal (by decide)
    (by decide) (by decide) (by decide) seq h23 h1 pa k hpa (by omega) (by omega) hsize (by omega) hc

/-! ## non-vacuity -/

/-- two copies of the sequence (0,4,7,17) under the binary32 protein defaults, built by one diagonal `update_n` from two
`make_profile_n` profiles — exactly what `do_align` builds for two identical sequences -/
def exGroup2S : Array SoftF32 :=
  (updateN (softParamOf 0 3) (makeProfile (softParamOf 0 3) #[0, 4, 7, 17]) (makeProfile (softParamOf 0 3) #[0, 4, 7, 17])
    [0, 0, 0, 0] 1 1).getD #[]

theorem exGroup2S_built : BuiltS (softParamOf 0 3) #[0, 4, 7, 17] exGroup2S 2 := by
  obtain ⟨p, hp, hb⟩ := C07Soft_profile_merge 32 (softParamOf 0 3) _ C07Soft_dyadic_protein _ _ _ _
    (exactParam_ok Gen.mat0 5500 2000 1000) (by decide) (by decide) (by decide) #[0, 4, 7, 17]
    (getD_lt_of_all _ (by decide +kernel)) _ _ 1 1 1 1 BuiltS.leaf BuiltS.leaf (by decide) (by decide)
  have : exGroup2S = p := by
    unfold exGroup2S
    have h3 : (List.replicate (#[0, 4, 7, 17] : Array Nat).size 0) = [0, 0, 0, 0] := rfl
    rw [h3] at hp
    rw [hp]; rfl
  rw [this]; exact hb

/-- `ProfOKS` on it, prepared against a group of 2 (`k·m = 4`; protein defaults in half units: `go = 11`, `ge = 4`, `gt = 2`,
`sh 4 4 = 24`, `sh 4 0 = −4`): column 2 (residue 4) holds `−22.0F`, `−8.0F`, `−4.0F`, `24.0F`, `−4.0F`, counts `2.0F` and `+0` -/
example : (pget (setGapPenalties exGroup2S 2) 2 27, pget (setGapPenalties exGroup2S 2) 2 28,
    pget (setGapPenalties exGroup2S 2) 2 29, pget (setGapPenalties exGroup2S 2) 2 (32 + 4),
    pget (setGapPenalties exGroup2S 2) 2 (32 + 0), pget (setGapPenalties exGroup2S 2) 2 4,
    pget (setGapPenalties exGroup2S 2) 2 0) =
    (neg (half (11 * 4)), neg (half (4 * 4)), neg (half (2 * 4)), half (24 * 2), half (-4 * 2), SoftF32.ofNat 2, SoftF32.zero) ∧
    neg (half (11 * 4)) = ofRaw 0xc1b00000 ∧ half (24 * 2) = ofRaw 0x41c00000 ∧ SoftF32.ofNat 2 = ofRaw 0x40000000 := by
  decide +kernel

/-- a zero penalty gives the slot `−0` (not `+0`): DNA defaults, `tgpe = 0` -/
example : pget (setGapPenalties (makeProfile (softParamOf 1 0) #[0, 1]) 3) 1 29 = neg (half 0) ∧ neg (half 0) = ofRaw 0x80000000 ∧
    half 0 = ofRaw 0 := by decide +kernel

/-- the hypotheses of `C08Soft_identical_groups_diag_protein` hold for two copies against two copies of (0,4,7,17) -/
example : ∃ codes, dpCodesS .parallel (softParamOf 0 3)
      (.profprof (setGapPenalties exGroup2S 2) (setGapPenalties exGroup2S 2)) true 4 4 4 4 = some codes ∧
    codes.map Col.ofCode = List.replicate 4 .both :=
  C08Soft_identical_groups_diag_protein .parallel 3 (Or.inl rfl) #[0, 4, 7, 17] (getD_lt_of_all _ (by decide +kernel))
    (by decide) exGroup2S exGroup2S 2 2 exGroup2S_built exGroup2S_built (by decide) (by decide +kernel)

/-- … and for one sequence against the two copies / the two copies against one sequence -/
example : (∃ codes, dpCodesS .serial (softParamOf 0 3) (.seqprof (setGapPenalties exGroup2S 1) #[0, 4, 7, 17] 2) true 4 4 4 4 =
      some codes ∧ codes.map Col.ofCode = List.replicate 4 .both) ∧
    (∃ codes, dpCodesS .serial (softParamOf 0 3) (.seqprof (setGapPenalties exGroup2S 1) #[0, 4, 7, 17] 2) false 4 4 4 4 =
      some codes ∧ codes.map Col.ofCode = List.replicate 4 .both) :=
  ⟨C08Soft_identical_seq_group_diag_protein .serial 3 (Or.inl rfl) #[0, 4, 7, 17] (getD_lt_of_all _ (by decide +kernel))
      (by decide) exGroup2S 2 exGroup2S_built (by decide) (by decide +kernel),
   C08Soft_identical_group_seq_diag_protein .serial 3 (Or.inl rfl) #[0, 4, 7, 17] (getD_lt_of_all _ (by decide +kernel))
      (by decide) exGroup2S 2 exGroup2S_built (by decide) (by decide +kernel)⟩

/-- two copies of a = (W,C,W) -/
def exProf2S : Array SoftF32 :=
  (updateN (softParamOf 0 3) (makeProfile (softParamOf 0 3) #[17, 4, 17]) (makeProfile (softParamOf 0 3) #[17, 4, 17])
    [0, 0, 0] 1 1).getD #[]

theorem exProf2S_built : BuiltS (softParamOf 0 3) #[17, 4, 17] exProf2S 2 := by
  obtain ⟨p, hp, hb⟩ := C07Soft_profile_merge 32 (softParamOf 0 3) _ C07Soft_dyadic_protein _ _ _ _
    (exactParam_ok Gen.mat0 5500 2000 1000) (by decide) (by decide) (by decide) #[17, 4, 17]
    (getD_lt_of_all _ (by decide +kernel)) _ _ 1 1 1 1 BuiltS.leaf BuiltS.leaf (by decide) (by decide)
  have : exProf2S = p := by
    unfold exProf2S
    have h3 : (List.replicate (#[17, 4, 17] : Array Nat).size 0) = [0, 0, 0] := rfl
    rw [h3] at hp
    rw [hp]; rfl
  rw [this]; exact hb

/-- the scaled margin with the binary32 slack (`K = 2`, tie bound `2 + 1000`) holds for `P = [both, gapB, both]`,
a = (W,C,W), b = (W,W) under the protein defaults -/
theorem exMargin2S : MarginK (exactSub Gen.mat0) 11000 4000 2000 #[17, 4, 17] #[17, 17] [.both, .gapB, .both] 2 (2 + 1000) := by
  intro Q hV hadj hne
  have hmem : Q ∈ enumCols 5 3 2 := by
    have h := enumCols_complete Q hV.1 5 (by
      have := length_le_cons Q hV.1
      rw [hV.2.1, hV.2.2] at this
      exact this)
    rw [hV.2.1, hV.2.2] at h
    exact h
  have hall : (enumCols 5 3 2).all (fun Q => !(adjOK .A Q) || decide (Q = [.both, .gapB, .both]) ||
      decide ((2 : Int) * scoreST (exactSub Gen.mat0) 11000 4000 2000 Q [17, 4, 17] [17, 17] + 1002 <
        2 * (scoreST (exactSub Gen.mat0) 11000 4000 2000 [.both, .gapB, .both] [17, 4, 17] [17, 17] -
          11000 * (nterm [Col.both, .gapB, .both] : Int) -
          (max 0 (max (2000 - 4000) (2000 - 11000)) + max 0 (4000 - 2000))))) = true := by
    decide +kernel
  have := List.all_eq_true.mp hall Q hmem
  simp only [Bool.or_eq_true, Bool.not_eq_true', decide_eq_true_eq] at this
  rcases this with (h | h) | h
  · rw [hadj] at h; exact absurd h (by simp)
  · exact absurd h hne
  · exact h

/-- so `C07Soft_doAlign_profile_seq_opt` applies to the group of two copies of `a` against `b` (a non-diagonal optimum) -/
example : ∃ codes, dpCodesS .parallel (softParamOf 0 3) (.seqprof (setGapPenalties exProf2S 1) #[17, 17] 2) false 3 2 3 2 =
      some codes ∧ codes.map Col.ofCode = [.both, .gapB, .both] :=
  C07Soft_doAlign_profile_seq_opt .parallel 32 (softParamOf 0 3) _ C07Soft_dyadic_protein 11000 4000 2000 (exactSub Gen.mat0)
    (exactParam_ok Gen.mat0 5500 2000 1000) (by decide) (by decide) (by decide)
    #[17, 4, 17] #[17, 17] (getD_lt_of_all _ (by decide +kernel)) (getD_lt_of_all _ (by decide +kernel)) (by decide) (by decide)
    exProf2S 2 exProf2S_built (by decide) (by decide) ⟨by decide, by decide⟩ [.both, .gapB, .both]
    ⟨by decide, by decide, by decide⟩ (by decide) exMargin2S

end Kalign
