import KalignModel.Model.Score
import KalignModel.Model.Progressive
import KalignModel.Lemmas.Score
/-!
# C08 — identical sequences are aligned without gaps

Specification-level content: under every admissible default parameter set the gap-free diagonal alignment of a sequence
with itself scores strictly higher than every other alignment, under every reading of the gap costs kalign's kernels
use (`upperScore` bounds them all from above; the diagonal has no gap, so all readings give it the same score).
That kalign's Hirschberg implementation returns the strict optimum is C07 (bit-exact kernel correspondence +
margin-certified oracle); the end-to-end claim is additionally searched on the implementation (tools/props/c08.py).
-/
namespace Kalign

/-- Φ holds for the defaults of every admissible (biotype, type): nucleotide sets over codes < 5, protein sets over codes < 23 -/
theorem C08_phi_tables : ∀ r ∈ Gen.paramTable, r.ok = true →
    phi (Gen.matrices.getD r.mat []) r.gpo r.gpe r.tgpe (if r.biotype = 1 then 5 else 23) = true := by
  decide +kernel

/-- the diagonal is the strict optimum: for a parameter set satisfying Φ, a sequence `s` over codes `< L` and ANY valid column
list `cs` for (s, s) other than the diagonal, even the most favourable reading of `cs` scores below the diagonal -/
theorem C08_diag_unique_opt (m : List (List Int)) (gpo gpe tgpe : Int) (L : Nat)
    (hphi : phi m gpo gpe tgpe L = true) (s : List Nat) (hs : ∀ x ∈ s, x < L)
    (cs : List Col) (hv : ValidCols cs s.length s.length) (hne : cs ≠ diagCols s.length) :
    upperScore (subOf m) (min gpe tgpe) cs s s < upperScore (subOf m) (min gpe tgpe) (diagCols s.length) s s := by
  obtain ⟨h1, h2⟩ := phi_spec hphi
  exact diag_strict_opt (subOf m) (min gpe tgpe) L h1 h2 s hs cs hv hne

/-- the diagonal of identical *groups*: profiles of k and l gap-free copies multiply every substitution term by k*l and every
gap term by a positive factor; the inequality is preserved (stated on the pair objective scaled by a positive factor) -/
theorem C08_diag_unique_opt_scaled (m : List (List Int)) (gpo gpe tgpe : Int) (L : Nat)
    (hphi : phi m gpo gpe tgpe L = true) (s : List Nat) (hs : ∀ x ∈ s, x < L)
    (cs : List Col) (hv : ValidCols cs s.length s.length) (hne : cs ≠ diagCols s.length) (k : Int) (hk : 0 < k) :
    k * upperScore (subOf m) (min gpe tgpe) cs s s < k * upperScore (subOf m) (min gpe tgpe) (diagCols s.length) s s :=
  Int.mul_lt_mul_of_pos_left (C08_diag_unique_opt m gpo gpe tgpe L hphi s hs cs hv hne) hk

/-- if every merge of a progressive alignment of identical sequences uses the diagonal, the final rows contain no gap:
for any tree, with the aligner that returns `n` aligned columns, every final row is the sequence itself -/
theorem C08_identical_msa_nogaps (s : List Nat) (T : Tree) (hnd : T.leaves.Nodup) :
    let al : Aligner Nat := fun _ _ => List.replicate s.length 0
    ∀ i ∈ T.leaves, finalRow (alignTree (fun _ => s) al T) i = some (s.map some) := by
  intro al i hi
  exact finalRow_identical s T hnd i hi

/-! ## non-vacuity -/

/-- a generated parameter row (protein defaults, `type = -1`) is admissible and satisfies Φ -/
example : ∃ r ∈ Gen.paramTable, r.ok = true ∧ r.biotype = 0 ∧ r.gpo = 5500 ∧ r.gpe = 2000 ∧ r.tgpe = 1000 ∧
    Gen.matrices.getD r.mat [] = Gen.mat0 :=
  ⟨_, List.mem_cons_self, rfl, rfl, rfl, rfl, rfl, rfl⟩
example : phi Gen.mat0 5500 2000 1000 23 = true := by decide +kernel
/-- the DNA defaults with `tgpe = 0` (biotype 1, type 0) satisfy Φ as well -/
example : phi Gen.mat3 8000 6000 0 5 = true := by decide +kernel

/-- a concrete sequence over codes `< 23` and a valid, non-diagonal column list (shifted by one) for it -/
example : ∀ x ∈ [0, 1, 2], x < 23 := by decide
example : ValidCols [.gapA, .both, .both, .gapB] [0, 1, 2].length [0, 1, 2].length := ⟨by decide, by decide, by decide⟩
example : [Col.gapA, .both, .both, .gapB] ≠ diagCols [0, 1, 2].length := by decide
/-- the strict inequality evaluated on that instance: -3000 < 17000 -/
example : upperScore (subOf Gen.mat0) (min 2000 1000) [.gapA, .both, .both, .gapB] [0, 1, 2] [0, 1, 2] = -3000 := by decide
example : upperScore (subOf Gen.mat0) (min 2000 1000) (diagCols 3) [0, 1, 2] [0, 1, 2] = 17000 := by decide
example : upperScore (subOf Gen.mat0) (min 2000 1000) [.gapA, .both, .both, .gapB] [0, 1, 2] [0, 1, 2]
    < upperScore (subOf Gen.mat0) (min 2000 1000) (diagCols [0, 1, 2].length) [0, 1, 2] [0, 1, 2] := by decide
/-- a second instance, with an internal gap pair instead of terminal gaps -/
example : upperScore (subOf Gen.mat0) (min 2000 1000) [.both, .gapB, .gapA, .both] [0, 1, 2] [0, 1, 2]
    < upperScore (subOf Gen.mat0) (min 2000 1000) (diagCols [0, 1, 2].length) [0, 1, 2] [0, 1, 2] := by decide

/-- a concrete progressive alignment of three identical sequences stays gap-free -/
example : finalRow (alignTree (fun _ => [3, 1, 4]) (fun _ _ => List.replicate 3 0)
    (.node (.node (.leaf 2) (.leaf 0)) (.leaf 1))) 0 = some [some 3, some 1, some 4] := by decide

end Kalign
