import KalignModel.Lemmas.PipelineFileSoft
import KalignModel.Props.PipelineFile
import KalignModel.Props.C05
/-!
# C05 for the whole program: no input makes the whole-program model fault

`kalignFileSoft2` (Model/PipelineFileSoft.lean) is `run_kalign()` — the reading loop over the input files, `dealign_msa`,
`kalign_run`, `kalign_write_msa` — with every DP score and the `< 100`-sequence guide tree on the software binary32 `SoftF32`
(tied bit for bit to C `float`); it is tied byte for byte to the running code by the op `kalign_file_soft2`
(Driver/PipelineFileSoft.lean, harness/ops_pipefile.c, `tools/gen_pipefile.py <seed> <scale> kalign_file_soft2`).
It differs from `kalignFile` in the carrier of the run stage only (`kalignFile_eq_with`: both are the frame `kalignFileWith`).

The theorems compose

* `C05_read_many_never_faults` (Props/C05.lean): the reader model has no fault path on any list of byte strings;
* the stage lemmas behind `kalignRunSoft2_never_faults` (Props/C05PipelineSoft2.lean; `kalignRunWithCB_soft2_never_faults` is that
  theorem for the detection function of the file path — the reader's `biotype` — instead of `detectF`);
* `gapsClear_of_read`, `readFiles_seqs` (Lemmas/PipelineFile.lean): what the readers guarantee about the msa they return;
* `C01_merge_integrity` along `recursive_aln` (`kalignRunWithCB_integrity`), the writer theorems of Props/C15.lean.

## theorems

* (a) `kalignFileSoft2_never_faults` — **every** list of input files (arbitrary bytes, missing files), every `type`, penalty triple,
  format word: if what the readers return is within the size bound (`SizeOK`: at most 2¹⁷ sequences, number × longest < 2¹⁹), the
  result is none of the fault values `readFault`, `writeFault`, `run .fault`, `run .tree`, `run .monitor`, `run .fuel`, nor
  `run .badByte`.  `readFault`, `writeFault` and `run .badByte` are excluded without the size bound
  (`kalignFileSoft2_never_readFault_writeFault_badByte`).
* (b) `kalignFileSoft2_errors` — the only results other than `.ok` are `.read`, `.noInput`, `.run .tooFew`, `.run .alphabet`,
  `.run .param`, `.format`; `kalignFileSoft2_read_iff`, `kalignFileSoft2_noInput_iff`: when the first two occur;
  `kalignFileSoft2_missing_file`: a path that does not exist always gives `.read`.
* (c) `kalignFileSoft2_ok_shape` — every `.ok out` satisfies the C01 integrity statement and the C15 shape statement of
  Props/PipelineFile.lean (`kalignFileSoft2_integrity`, `kalignFileSoft2_output_shape`: instances of the carrier-generic
  `kalignFileWith_integrity`, `kalignFileWith_output_shape`, of which `kalignFile_integrity` is the `Float32` instance).

Non-vacuity: Props/C05WholeProgramEx.lean (a two-file input, the SoftF32 stages and the writer evaluated by the kernel).
-/
namespace Kalign.PipelineFile
open Kalign Kalign.IO Kalign.Pipeline List

/-- `kalignFile` and `kalignFileSoft2` are the same frame around two run stages -/
theorem kalignFile_eq_with (ver base date : Bytes) (files : List (Option Bytes)) (type : Int) (gpo gpe tgpe : Float32)
    (fmt : Option String) :
    kalignFile ver base date files type gpo gpe tgpe fmt =
      kalignFileWith (fun m => runMsa m type gpo gpe tgpe) ver base date files fmt := rfl

/-! ## the size bound, on what the readers return -/

/-- `max_i msa->sequences[i]->len` -/
def maxLen (m : Msa) : Nat := (m.seqs.map fun s => s.res.length).foldl max 0

/-- the size bound of `kalignRunSoft2_never_faults` on the msa the reading loop returns: `numseq ≤ 2¹⁷` and
`numseq · maxlen < 2¹⁹` (all records count, the empty ones included) -/
def SizeOK (m : Msa) : Prop := m.seqs.length ≤ 131072 ∧ m.seqs.length * maxLen m < 524288

instance (m : Msa) : Decidable (SizeOK m) := by unfold SizeOK; exact inferInstance

theorem foldl_max_ge (l : List Nat) : ∀ (a : Nat), a ≤ l.foldl max a ∧ ∀ x ∈ l, x ≤ l.foldl max a := by
  induction l with
  | nil => intro a; exact ⟨Nat.le_refl _, fun x hx => absurd hx (by simp)⟩
  | cons y ys ih =>
    intro a
    simp only [foldl_cons]
    obtain ⟨h1, h2⟩ := ih (max a y)
    refine ⟨by omega, ?_⟩
    intro x hx
    rcases mem_cons.1 hx with rfl | hx
    · omega
    · exact h2 x hx

theorem le_maxLen (m : Msa) : ∀ s ∈ m.seqs, s.res.length ≤ maxLen m := by
  intro s hs
  exact (foldl_max_ge _ 0).2 _ (mem_map_of_mem hs)

/-! ## what the run stage sees of an msa from the readers -/

theorem inSeqs_length (m : Msa) : ((dealignStep m).seqs.map toInSeq).length = m.seqs.length := by
  unfold dealignStep
  split <;> simp

theorem inSeqs_len_le (m : Msa) (M : Nat) (h : ∀ s ∈ m.seqs, s.res.length ≤ M) :
    ∀ x ∈ (dealignStep m).seqs.map toInSeq, x.seq.length ≤ M := by
  intro x hx
  have hnr := dealignStep_names_res m
  obtain ⟨s', hs', rfl⟩ := mem_map.1 hx
  have : (s'.name, s'.res) ∈ namesRes m.seqs := by
    rw [← hnr]
    exact mem_map.2 ⟨s', hs', rfl⟩
  obtain ⟨s, hs, he⟩ := mem_map.1 this
  simp only [Prod.mk.injEq] at he
  simp only [toInSeq, length_map]
  rw [← he.2]
  exact h s hs

theorem isAlpha_lt_128 (b : UInt8) (h : isAlpha b = true) : b.toNat < 128 := by
  simp only [isAlpha, isUpper, isLower, Bool.or_eq_true, Bool.and_eq_true, decide_eq_true_eq, UInt8.le_iff_toNat_le] at h
  have e1 : (90 : UInt8).toNat = 90 := rfl
  have e2 : (122 : UInt8).toNat = 122 := rfl
  omega

/-- the readers keep `isalpha` bytes only: no residue byte ≥ 128 reaches `kalign_run` on the file path -/
theorem noBadByte_of_recOK (m : Msa) (hrec : ∀ s ∈ m.seqs, RecOK s) :
    hasBadByte ((dealignStep m).seqs.map toInSeq) = false := by
  have hnr := dealignStep_names_res m
  unfold hasBadByte
  rw [any_eq_false]
  intro x hx
  obtain ⟨s', hs', rfl⟩ := mem_map.1 hx
  have : (s'.name, s'.res) ∈ namesRes m.seqs := by
    rw [← hnr]
    exact mem_map.2 ⟨s', hs', rfl⟩
  obtain ⟨s, hs, he⟩ := mem_map.1 this
  simp only [Prod.mk.injEq] at he
  simp only [toInSeq, Bool.not_eq_true]
  rw [any_eq_false]
  intro c hc
  obtain ⟨b, hb, rfl⟩ := mem_map.1 hc
  rw [← he.2] at hb
  have := isAlpha_lt_128 b ((hrec s hs).1 b hb)
  rw [byteChar_toNat]
  simp only [decide_eq_true_eq]
  omega

/-- the reading loop never ends in the reader's fault value -/
theorem readFiles_ne_fault (files : List (Option Bytes)) : readFiles files ≠ .fault := by
  unfold readFiles
  have := C05_read_many_never_faults ((files.takeWhile Option.isSome).filterMap id) none
  split
  · rename_i h; exact absurd h this
  · simp
  · split
    · assumption
    · simp

/-- **the run stage on an msa from the readers**: no `.badByte`, no `.fault` from the guard on the gap vectors; with the size
bound none of `.fault`, `.tree`, `.monitor`, `.fuel` -/
theorem runMsaSoft2_ne_badByte (files : List (Option Bytes)) (m : Msa) (h : readFiles files = .ok m) (type : Int)
    (gpo gpe tgpe : SoftF32) : runMsaSoft2 m type gpo gpe tgpe ≠ .error .badByte := by
  unfold runMsaSoft2
  simp only [gapsClear_of_read files m h, Bool.not_true, Bool.false_eq_true, if_false]
  exact kalignRunWithCB_soft2_ne_badByte _ _ _ _ (noBadByte_of_recOK m (readFiles_seqs files m h).2)

theorem runMsaSoft2_never_faults (files : List (Option Bytes)) (m : Msa) (h : readFiles files = .ok m) (hs : SizeOK m)
    (type : Int) (gpo gpe tgpe : SoftF32) :
    runMsaSoft2 m type gpo gpe tgpe ≠ .error .fuel ∧ runMsaSoft2 m type gpo gpe tgpe ≠ .error .tree ∧
    runMsaSoft2 m type gpo gpe tgpe ≠ .error .fault ∧ runMsaSoft2 m type gpo gpe tgpe ≠ .error .monitor := by
  unfold runMsaSoft2
  simp only [gapsClear_of_read files m h, Bool.not_true, Bool.false_eq_true, if_false]
  have hle := numNonEmpty_le ((dealignStep m).seqs.map toInSeq)
  rw [inSeqs_length] at hle
  have hmul : numNonEmpty ((dealignStep m).seqs.map toInSeq) * maxLen m ≤ m.seqs.length * maxLen m :=
    Nat.mul_le_mul_right _ hle
  exact kalignRunWithCB_soft2_never_faults _ _ type gpo gpe tgpe (maxLen m) (by have := hs.1; omega)
    (inSeqs_len_le m _ (le_maxLen m)) (by have := hs.2; omega)

/-- the writer stays inside the rows of every alignment the run stage returns: `writeMsa` never answers `fault` -/
theorem writeMsa_ne_fault_of_spec {m : Msa} {rows : List (Name × GRow)} (h : RunSpec m rows) (ver date : Bytes)
    (fmt : Option Bytes) (bio : Nat) (base : Bytes) : writeMsa ver date fmt (alignmentOf rows bio base) ≠ .fault := by
  have hin : (alignmentOf rows bio base).InBounds := by
    intro r hr
    rw [alignmentOf_rows_length_of_spec h bio base r hr]
    exact Nat.le_refl _
  unfold writeMsa
  split
  · simp
  · simp only [hin, not_true_eq_false, if_false]
    repeat' split
    all_goals simp

/-! ## (a) no fault value -/

/-- without any size bound: the reader's and the writer's fault values and `.run .badByte` (a residue byte ≥ 128 handed to
`kalign_run`) are never the result — every list of files, every `type`, penalty triple and format word -/
theorem kalignFileSoft2_never_readFault_writeFault_badByte (ver base date : Bytes) (files : List (Option Bytes)) (type : Int)
    (gpo gpe tgpe : SoftF32) (fmt : Option String) :
    kalignFileSoft2 ver base date files type gpo gpe tgpe fmt ≠ .error .readFault ∧
    kalignFileSoft2 ver base date files type gpo gpe tgpe fmt ≠ .error .writeFault ∧
    kalignFileSoft2 ver base date files type gpo gpe tgpe fmt ≠ .error (.run .badByte) := by
  unfold kalignFileSoft2 kalignFileWith
  cases hr : readFiles files with
  | fault => exact absurd hr (readFiles_ne_fault files)
  | fail => simp
  | null => simp
  | ok m =>
    simp only
    cases hrun : runMsaSoft2 m type gpo gpe tgpe with
    | error e =>
      have := runMsaSoft2_ne_badByte files m hr type gpo gpe tgpe
      rw [hrun] at this
      simp only [ne_eq, Except.error.injEq, reduceCtorEq, not_false_eq_true, FileErr.run.injEq, true_and]
      intro he
      exact this (by rw [he])
    | ok rows =>
      simp only
      have hw := writeMsa_ne_fault_of_spec (runMsaSoft2_spec hrun) ver date (fmtBytes fmt) (dealignStep m).biotype base
      cases hwr : writeMsa ver date (fmtBytes fmt) (alignmentOf rows (dealignStep m).biotype base) with
      | fault => exact absurd hwr hw
      | fail => simp
      | ok b => simp

/-- **(a) `kalignFileSoft2_never_faults`** (C05 for the whole program).  For every list of input files — arbitrary bytes, paths
that do not exist —, every `type`, every penalty triple (any binary32 bit patterns) and every format word: if the msa the reading
loop returns is within the size bound (`hsize`; nothing is asked when the loop fails or reads nothing), the whole-program model
returns none of its fault values. -/
theorem kalignFileSoft2_never_faults (ver base date : Bytes) (files : List (Option Bytes)) (type : Int)
    (gpo gpe tgpe : SoftF32) (fmt : Option String) (hsize : ∀ m, readFiles files = .ok m → SizeOK m) :
    kalignFileSoft2 ver base date files type gpo gpe tgpe fmt ≠ .error .readFault ∧
    kalignFileSoft2 ver base date files type gpo gpe tgpe fmt ≠ .error .writeFault ∧
    kalignFileSoft2 ver base date files type gpo gpe tgpe fmt ≠ .error (.run .fault) ∧
    kalignFileSoft2 ver base date files type gpo gpe tgpe fmt ≠ .error (.run .tree) ∧
    kalignFileSoft2 ver base date files type gpo gpe tgpe fmt ≠ .error (.run .monitor) ∧
    kalignFileSoft2 ver base date files type gpo gpe tgpe fmt ≠ .error (.run .fuel) ∧
    kalignFileSoft2 ver base date files type gpo gpe tgpe fmt ≠ .error (.run .badByte) := by
  obtain ⟨h1, h2, h3⟩ := kalignFileSoft2_never_readFault_writeFault_badByte ver base date files type gpo gpe tgpe fmt
  refine ⟨h1, h2, ?_, ?_, ?_, ?_, h3⟩
  all_goals
    unfold kalignFileSoft2 kalignFileWith
    cases hr : readFiles files with
    | fault => simp
    | fail => simp
    | null => simp
    | ok m =>
      simp only
      obtain ⟨f1, f2, f3, f4⟩ := runMsaSoft2_never_faults files m hr (hsize m hr) type gpo gpe tgpe
      cases hrun : runMsaSoft2 m type gpo gpe tgpe with
      | error e =>
        rw [hrun] at f1 f2 f3 f4
        simp only [ne_eq, Except.error.injEq, FileErr.run.injEq]
        intro he
        subst he
        first | exact absurd rfl f3 | exact absurd rfl f2 | exact absurd rfl f4 | exact absurd rfl f1
      | ok rows =>
        simp only
        cases writeMsa ver date (fmtBytes fmt) (alignmentOf rows (dealignStep m).biotype base) <;> simp

/-! ## (b) the only errors are the documented rejections -/

/-- **(b) `kalignFileSoft2_errors`**: under the size bound of (a) a run that does not return an output file ends with one of
* `.read` — `kalign_read_input` returned FAIL: a file that does not exist, a reader error, no sequence in a recognised file, or
  "Input alignments have different alphabets";
* `.noInput` — every input was empty or of no recognised format ("No alignment");
* `.run .tooFew` — fewer than two non-empty sequences;
* `.run .alphabet` — "Unable to determine what alphabet to use.";
* `.run .param` — `aln_param_init` rejects `--type` for the detected alphabet, or a penalty above the cap;
* `.format` — "Format … not recognized." -/
theorem kalignFileSoft2_errors (ver base date : Bytes) (files : List (Option Bytes)) (type : Int)
    (gpo gpe tgpe : SoftF32) (fmt : Option String) (hsize : ∀ m, readFiles files = .ok m → SizeOK m)
    (e : FileErr) (he : kalignFileSoft2 ver base date files type gpo gpe tgpe fmt = .error e) :
    e = .read ∨ e = .noInput ∨ e = .run .tooFew ∨ e = .run .alphabet ∨ e = .run .param ∨ e = .format := by
  obtain ⟨h1, h2, h3, h4, h5, h6, h7⟩ := kalignFileSoft2_never_faults ver base date files type gpo gpe tgpe fmt hsize
  rw [he] at h1 h2 h3 h4 h5 h6 h7
  cases e with
  | run r => cases r <;> simp at h3 h4 h5 h6 h7 ⊢
  | _ => simp at h1 h2 ⊢

/-- `.read` is the answer exactly when the reading loop fails -/
theorem kalignFileSoft2_read_iff (ver base date : Bytes) (files : List (Option Bytes)) (type : Int)
    (gpo gpe tgpe : SoftF32) (fmt : Option String) :
    kalignFileSoft2 ver base date files type gpo gpe tgpe fmt = .error .read ↔ readFiles files = .fail := by
  unfold kalignFileSoft2 kalignFileWith
  cases hr : readFiles files with
  | fault => simp
  | fail => simp
  | null => simp
  | ok m =>
    simp only
    cases runMsaSoft2 m type gpo gpe tgpe with
    | error e => simp
    | ok rows =>
      simp only
      cases writeMsa ver date (fmtBytes fmt) (alignmentOf rows (dealignStep m).biotype base) <;> simp

/-- a path that does not exist among the inputs: the reading loop fails -/
theorem readFiles_missing (files : List (Option Bytes)) (h : files.all Option.isSome = false) : readFiles files = .fail := by
  unfold readFiles
  have := C05_read_many_never_faults ((files.takeWhile Option.isSome).filterMap id) none
  split
  · rename_i hh; exact absurd hh this
  · rfl
  · simp [h]

/-- **a missing input file is reported as a failure** (`.read`), whatever the other files hold -/
theorem kalignFileSoft2_missing_file (ver base date : Bytes) (files : List (Option Bytes)) (type : Int)
    (gpo gpe tgpe : SoftF32) (fmt : Option String) (h : files.all Option.isSome = false) :
    kalignFileSoft2 ver base date files type gpo gpe tgpe fmt = .error .read :=
  (kalignFileSoft2_read_iff ver base date files type gpo gpe tgpe fmt).2 (readFiles_missing files h)

/-- `.noInput` is the answer exactly when nothing was read from any input -/
theorem kalignFileSoft2_noInput_iff (ver base date : Bytes) (files : List (Option Bytes)) (type : Int)
    (gpo gpe tgpe : SoftF32) (fmt : Option String) :
    kalignFileSoft2 ver base date files type gpo gpe tgpe fmt = .error .noInput ↔ readFiles files = .null := by
  unfold kalignFileSoft2 kalignFileWith
  cases hr : readFiles files with
  | fault => simp
  | fail => simp
  | null => simp
  | ok m =>
    simp only
    cases runMsaSoft2 m type gpo gpe tgpe with
    | error e => simp
    | ok rows =>
      simp only
      cases writeMsa ver date (fmtBytes fmt) (alignmentOf rows (dealignStep m).biotype base) <;> simp

/-! ## (c) every output file: integrity (C01) and shape (C15), for any run stage that satisfies `RunSpec` -/

/-- **`kalignFile_integrity` for the frame `kalignFileWith`** with any run stage whose successful results satisfy `RunSpec`
(`runMsa`: `runMsa_runSpec`; `runMsaSoft2`: `runMsaSoft2_spec`) -/
theorem kalignFileWith_integrity {run : Msa → Except PipeErr (List (Name × GRow))}
    (hspec : ∀ m rows, run m = .ok rows → RunSpec m rows) {ver base date : Bytes} {files : List (Option Bytes)}
    {fmt : Option String} {out : Bytes} (h : kalignFileWith run ver base date files fmt = .ok out) :
    ∃ m A t, Wrote ver base date files fmt out m A t ∧
      A.rows.map (fun r => (r.name, r.row.filter (· ≠ 45))) = keptRecs m.seqs ∧
      (∀ r ∈ A.rows, ∀ b ∈ r.row, b = 45 ∨ isAlpha b = true) ∧
      (∀ r ∈ A.rows, r.row.length = A.alnlen) ∧ 2 ≤ A.rows.length := by
  obtain ⟨m, rows, t, hread, hrun, ht, hp, hin, hout⟩ := kalignFileWith_ok h
  obtain ⟨hseqs, hrec⟩ := readFiles_seqs files m hread
  have hsp := hspec m rows hrun
  have hkept := hsp.1
  have h2 := hsp.2.2.1
  have hbio := hsp.2.2.2
  have halpha : ∀ x ∈ rows, ∀ b ∈ (degap x.2).map charByte, isAlpha b = true := by
    intro x hx b hb
    obtain ⟨_, s0, hs0, he⟩ := mem_keptRecs (row_mem_kept_of_spec hsp hx)
    simp only [Prod.mk.injEq] at he
    rw [he.2] at hb
    exact (hrec s0 hs0).1 b hb
  refine ⟨m, alignmentOf rows m.biotype base, t, ⟨hread, hseqs, ⟨ht, hp⟩, hout, hin, rfl, hbio, rfl, rfl⟩, ?_, ?_,
    alignmentOf_rows_length_of_spec hsp _ _, by simpa [alignmentOf] using h2⟩
  · rw [← hkept]
    simp only [alignmentOf, map_map]
    apply map_congr_left
    intro x hx
    simp only [Function.comp, Prod.mk.injEq, true_and]
    apply filter_renderB
    intro c hc hc45
    have := halpha x hx (charByte c) (mem_map_of_mem hc)
    rw [hc45] at this
    exact absurd this (by decide)
  · intro r hr b hb
    simp only [alignmentOf, mem_map] at hr
    obtain ⟨x, hx, rfl⟩ := hr
    simp only [renderB, mem_map] at hb
    obtain ⟨o, ho, rfl⟩ := hb
    cases o with
    | none => exact Or.inl rfl
    | some c =>
      refine Or.inr (halpha x hx _ (mem_map_of_mem ?_))
      simp only [degap, mem_filterMap, id]
      exact ⟨some c, ho, rfl⟩

/-- the C15 shape statement follows from what `Wrote` records and the common row width -/
theorem shape_of_wrote {ver base date : Bytes} {files : List (Option Bytes)} {fmt : Option String} {out : Bytes} {m : Msa}
    {A : Alignment} {t : Nat} (w : Wrote ver base date files fmt out m A t) (hlen : ∀ r ∈ A.rows, r.row.length = A.alnlen) :
    (t = 1 → FastaShape A out) ∧ (t = 3 → CluShape ver A out) ∧ (t = 2 → MsfShape date A out) := by
  refine ⟨?_, ?_, ?_⟩
  · intro ht
    have ho := w.out
    rw [ht] at ho
    simp only [writeAs, if_true] at ho
    rw [ho]
    exact fasta_shape A
  · intro ht
    have ho := w.out
    rw [ht] at ho
    simp only [writeAs, show ¬ (3 = 1) by decide, show ¬ (3 = 2) by decide, if_false] at ho
    rw [ho]
    exact ⟨blocks_shape_clu ver A w.inb, blocksShape_of A w.inb⟩
  · intro ht
    have ho := w.out
    rw [ht] at ho
    simp only [writeAs, show ¬ (2 = 1) by decide, if_false, if_true] at ho
    rw [ho]
    obtain ⟨l1, l2, l3⟩ := msf_len_of_width date A
    obtain ⟨c1, c2⟩ := msf_checksums_of_width date A hlen
    obtain ⟨hb, hcls, hL, _⟩ := w.hdr
    refine ⟨blocks_shape_msf date A w.inb, blocksShape_of A w.inb, l1, l2, l3, c1, c2, ?_⟩
    rcases hcls with h0 | h1
    · exact Or.inl ⟨by rw [hb, h0], (msf_type A).1 (by rw [hb, h0])⟩
    · have hb1 : A.biotype = 1 := by rw [hb, h1]
      have hL13 : A.L ≠ 13 := by rw [hL, h1]; decide
      exact Or.inr ⟨hb1, (msf_type A).2 hb1 hL13⟩

/-- **`kalignFile_output_shape` for the frame `kalignFileWith`** -/
theorem kalignFileWith_output_shape {run : Msa → Except PipeErr (List (Name × GRow))}
    (hspec : ∀ m rows, run m = .ok rows → RunSpec m rows) {ver base date : Bytes} {files : List (Option Bytes)}
    {fmt : Option String} {out : Bytes} (h : kalignFileWith run ver base date files fmt = .ok out) :
    ∃ m A t, Wrote ver base date files fmt out m A t ∧
      (t = 1 → FastaShape A out) ∧ (t = 3 → CluShape ver A out) ∧ (t = 2 → MsfShape date A out) := by
  obtain ⟨m, A, t, w, _, _, hlen, _⟩ := kalignFileWith_integrity hspec h
  exact ⟨m, A, t, w, shape_of_wrote w hlen⟩

/-- the `Float32` whole-program theorem is the instance `run = runMsa` of the generic one -/
example {ver base date : Bytes} {files : List (Option Bytes)} {type : Int} {gpo gpe tgpe : Float32}
    {fmt : Option String} {out : Bytes} (h : kalignFile ver base date files type gpo gpe tgpe fmt = .ok out) :
    ∃ m A t, Wrote ver base date files fmt out m A t ∧
      A.rows.map (fun r => (r.name, r.row.filter (· ≠ 45))) = keptRecs m.seqs ∧
      (∀ r ∈ A.rows, ∀ b ∈ r.row, b = 45 ∨ isAlpha b = true) ∧
      (∀ r ∈ A.rows, r.row.length = A.alnlen) ∧ 2 ≤ A.rows.length :=
  kalignFileWith_integrity (fun _ _ hr => runMsa_runSpec hr) (by rw [← kalignFile_eq_with]; exact h)

/-- **C01 for the whole program on the software binary32** (`kalignFile_integrity` for `kalignFileSoft2`): the alignment written
has exactly one row per non-empty record of the input files — files in the order given, records in the order they appear — under
the record's name; removing the gap characters from a row gives back the record's residues; rows consist of letters and `'-'`
only; all rows have the declared length `alnlen`; there are at least two rows. -/
theorem kalignFileSoft2_integrity {ver base date : Bytes} {files : List (Option Bytes)} {type : Int}
    {gpo gpe tgpe : SoftF32} {fmt : Option String} {out : Bytes}
    (h : kalignFileSoft2 ver base date files type gpo gpe tgpe fmt = .ok out) :
    ∃ m A t, Wrote ver base date files fmt out m A t ∧
      A.rows.map (fun r => (r.name, r.row.filter (· ≠ 45))) = keptRecs m.seqs ∧
      (∀ r ∈ A.rows, ∀ b ∈ r.row, b = 45 ∨ isAlpha b = true) ∧
      (∀ r ∈ A.rows, r.row.length = A.alnlen) ∧ 2 ≤ A.rows.length :=
  kalignFileWith_integrity (fun _ _ hr => runMsaSoft2_spec hr) h

/-- **C15 for the whole program on the software binary32** (`kalignFile_output_shape` for `kalignFileSoft2`) -/
theorem kalignFileSoft2_output_shape {ver base date : Bytes} {files : List (Option Bytes)} {type : Int}
    {gpo gpe tgpe : SoftF32} {fmt : Option String} {out : Bytes}
    (h : kalignFileSoft2 ver base date files type gpo gpe tgpe fmt = .ok out) :
    ∃ m A t, Wrote ver base date files fmt out m A t ∧
      (t = 1 → FastaShape A out) ∧ (t = 3 → CluShape ver A out) ∧ (t = 2 → MsfShape date A out) :=
  kalignFileWith_output_shape (fun _ _ hr => runMsaSoft2_spec hr) h

/-- **(c) `kalignFileSoft2_ok_shape`**: every output file of the whole-program model satisfies the C01 integrity statement and
the C15 shape statement, for one and the same msa `m`, alignment `A` and format id `t` (1 FASTA, 2 MSF, 3 Clustal).  No
hypothesis besides the successful run: every input, `type`, penalty triple and format word. -/
theorem kalignFileSoft2_ok_shape {ver base date : Bytes} {files : List (Option Bytes)} {type : Int}
    {gpo gpe tgpe : SoftF32} {fmt : Option String} {out : Bytes}
    (h : kalignFileSoft2 ver base date files type gpo gpe tgpe fmt = .ok out) :
    ∃ m A t, Wrote ver base date files fmt out m A t ∧
      -- C01
      A.rows.map (fun r => (r.name, r.row.filter (· ≠ 45))) = keptRecs m.seqs ∧
      (∀ r ∈ A.rows, ∀ b ∈ r.row, b = 45 ∨ isAlpha b = true) ∧
      (∀ r ∈ A.rows, r.row.length = A.alnlen) ∧ 2 ≤ A.rows.length ∧
      -- C15
      (t = 1 → FastaShape A out) ∧ (t = 3 → CluShape ver A out) ∧ (t = 2 → MsfShape date A out) := by
  obtain ⟨m, A, t, w, i1, i2, i3, i4⟩ := kalignFileSoft2_integrity h
  exact ⟨m, A, t, w, i1, i2, i3, i4, shape_of_wrote w i3⟩

end Kalign.PipelineFile
