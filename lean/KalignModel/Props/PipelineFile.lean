import KalignModel.Lemmas.PipelineFile
import KalignModel.Lemmas.PipelineC10
/-!
# Whole-program theorems for the file-to-file pipeline (`kalignFile`, Model/PipelineFile.lean)

`kalignFile` is tied to the running code (`kalign_read_input`* → `kalign_run` → `kalign_write_msa`, and the static
`run_kalign()` itself) by the correspondence op `kalign_file` (harness/ops_pipefile.c, tools/gen_pipefile.py).
Every theorem below has `kalignFile … = .ok out` (or nothing) as its only run-dependent hypothesis and is obtained by
composing the theorems of Props/C04 (presentations, split files), Props/C06 (round trip), Props/C15 (output shape) and
Props/Pipeline (integrity of `kalignRunWith`); binary32/binary64 arithmetic stays opaque.

* (a) `kalignFile_presentation_independent`, `kalignFile_presentation_independent_one` — C04 for the whole program;
* (b) `kalignFile_output_shape` — C15 for the whole program;
* (c) `kalignFile_roundtrip` — C06 for the whole program;
* (d) `kalignFile_integrity` — C01 for the whole program (file API);
* `kalignFile_no_fault` — the model's `PipeErr.fault` guard on the gap vectors is unreachable;
* (e) `recAln_subalignment_preserved`, `recAln_subalignment_finalRow_partial` — C10 along `recursive_aln` of the pipeline.
-/
namespace Kalign.PipelineFile
open Kalign Kalign.IO Kalign.Pipeline List

/-! ## (a) the result depends on the records only, not on their presentation -/

/-- after `dealign_msa` two msas with the same names and residues and the same class are the same msa -/
theorem dealignStep_congr (S₁ S₂ : List SeqRec) (w₁ : GapsWF S₁) (w₂ : GapsWF S₂) (hsame : namesRes S₁ = namesRes S₂)
    (b₁ b₂ : Nat) (hbio : (finishMsa S₁ b₁ 255).biotype = (finishMsa S₂ b₂ 255).biotype) :
    dealignStep (finishMsa S₁ b₁ 255) = dealignStep (finishMsa S₂ b₂ 255) := by
  rw [dealignStep_eq_runDealign, dealignStep_eq_runDealign, runDealign_finish S₁ w₁, runDealign_finish S₂ w₂,
    dealignSeq_congr S₁ S₂ hsame, hbio, finishMsa_L, finishMsa_L]

/-- **(a) `kalignFile_presentation_independent`** (C04 for the whole program).  Two lists of input files, each a list of
FASTA / Clustal / MSF presentations (`Presents`, Props/C04.lean: any line widths, blank lines, gap glyphs, padding,
digits, conservation lines, header styles) of records with the same names and residues in the same order — the records
may be cut into files differently on the two sides — give the same result: the same error or the same output bytes.
Side conditions, exactly those of `read_split_files` / `split_same_as_one_file`: `ClassOK` (finding C04-split-class:
`merge_msa` refuses a further file whose own detected class differs from the class accumulated so far) on both sides,
and a definite class of the records taken together (`hdef`: the two likelihoods of `detect_alphabet` differ; on a tie
the class is whatever the previous files left behind, which does depend on the cut). -/
theorem kalignFile_presentation_independent (ver base date : Bytes) (files₁ files₂ : List Bytes)
    (Ss₁ Ss₂ : List (List SeqRec)) (hne₁ : files₁ ≠ []) (hne₂ : files₂ ≠ [])
    (hp₁ : AllPresent files₁ Ss₁) (hp₂ : AllPresent files₂ Ss₂) (hc₁ : ClassOK none Ss₁) (hc₂ : ClassOK none Ss₂)
    (hsame : namesRes Ss₁.flatten = namesRes Ss₂.flatten) (hdef : (finishMsa Ss₁.flatten 2 255).biotype ≠ 2)
    (type : Int) (gpo gpe tgpe : Float32) (fmt : Option String) :
    kalignFile ver base date (files₁.map some) type gpo gpe tgpe fmt =
    kalignFile ver base date (files₂.map some) type gpo gpe tgpe fmt := by
  obtain ⟨m₁, b₁, hm₁, hmeq₁, _, _, _, _⟩ := read_split_files files₁ Ss₁ hne₁ hp₁ hc₁
  obtain ⟨m₂, b₂, hm₂, hmeq₂, _, _, _, _⟩ := read_split_files files₂ Ss₂ hne₂ hp₂ hc₂
  have hres : Ss₁.flatten.map (·.res) = Ss₂.flatten.map (·.res) := by
    have := congrArg (fun l => l.map Prod.snd) hsame
    simpa [namesRes, Function.comp_def] using this
  have hlf := letterFreq_depends_on_residues _ _ hres
  have hd₁ : (detectAlphabet (letterFreq Ss₁.flatten) 2 255).1 ≠ 2 := by rw [← finishMsa_biotype]; exact hdef
  have hbio : (finishMsa Ss₁.flatten b₁ 255).biotype = (finishMsa Ss₂.flatten b₂ 255).biotype := by
    rw [finishMsa_biotype, finishMsa_biotype, detectAlphabet_definite _ 255 hd₁ b₁, ← hlf,
      detectAlphabet_definite _ 255 hd₁ b₂]
  rw [kalignFile_eq, kalignFile_eq, readFiles_map_some, readFiles_map_some, hm₁, hm₂]
  simp only
  rw [hmeq₁, hmeq₂, dealignStep_congr _ _ hp₁.gapsWF hp₂.gapsWF hsame b₁ b₂ hbio]

/-- the one-file case needs no side condition besides the presentation hypotheses: both readings start from the
undefined class, so even an undecided `detect_alphabet` is the same on both sides -/
theorem kalignFile_presentation_independent_one (ver base date : Bytes) (f₁ f₂ : Bytes) (S₁ S₂ : List SeqRec)
    (h₁ : Presents f₁ S₁) (h₂ : Presents f₂ S₂) (hsame : namesRes S₁ = namesRes S₂)
    (type : Int) (gpo gpe tgpe : Float32) (fmt : Option String) :
    kalignFile ver base date [some f₁] type gpo gpe tgpe fmt =
    kalignFile ver base date [some f₂] type gpo gpe tgpe fmt := by
  have hone : ∀ f S, Presents f S → readInputs none [f] = .ok (finishMsa S 2 255) := by
    intro f S h
    have := readInputs_split [f] [S] none (.cons h.reads .nil) ⟨trivial, trivial⟩
    simpa [accum, IO.mergeStep] using this
  have hres : S₁.map (·.res) = S₂.map (·.res) := by
    have := congrArg (fun l => l.map Prod.snd) hsame
    simpa [namesRes, Function.comp_def] using this
  have hbio : (finishMsa S₁ 2 255).biotype = (finishMsa S₂ 2 255).biotype := by
    rw [finishMsa_biotype, finishMsa_biotype, biotype_depends_on_residues S₁ S₂ hres]
  have e : ∀ f : Bytes, [some f] = [f].map some := fun _ => rfl
  rw [kalignFile_eq, kalignFile_eq, e f₁, e f₂, readFiles_map_some, readFiles_map_some, hone f₁ S₁ h₁, hone f₂ S₂ h₂]
  simp only
  rw [dealignStep_congr _ _ h₁.gapsWF h₂.gapsWF hsame 2 2 hbio]

/-! ### non-vacuity of (a) -/

/-- two records, FASTA: gap glyphs `-`, one line per record -/
def exFasta : Bytes := emit ([] ++ faPres [(ascii "s1", [ascii "AC-GT"]), (ascii "a|b", [ascii "A--GTT"])])
/-- the same records as Clustal text: two blocks, `.`/`~` as gap glyphs, a conservation line, extra empty lines -/
def exClu : Bytes :=
  emit (ascii "CLUSTAL W (1.83) multiple sequence alignment" ::
    ([[]] ++ cluPres (fun b => if b = 0 then ([ascii "    **"], 2) else ([], 0)) (1 + 1) 0
      [(ascii "s1", [ascii "  AC.", ascii " GT 5"]), (ascii "a|b", [ascii " A~~", ascii " GTT"])]))
def exRecsFa : List (Bytes × List Bytes) := [(ascii "s1", [ascii "AC-GT"]), (ascii "a|b", [ascii "A--GTT"])]
def exRecsClu : List RowC := [(ascii "s1", [ascii "  AC.", ascii " GT 5"]), (ascii "a|b", [ascii " A~~", ascii " GTT"])]

theorem exFasta_presents : Presents exFasta (exRecsFa.map recOf) :=
  Presents.fasta [] exRecsFa (by simp) (by decide) (by decide) (by decide)
    (by intro l ls h
        simp only [exRecsFa, faPres, flatMap_cons, flatMap_nil, nil_append, append_nil, cons_append, cons.injEq] at h
        rw [← h.1]; decide) (by decide)

theorem exClu_presents : Presents exClu (exRecsClu.map recOf) :=
  Presents.clu (ascii "CLUSTAL W (1.83) multiple sequence alignment") [[]]
    (fun b => if b = 0 then ([ascii "    **"], 2) else ([], 0)) 1 exRecsClu
    (by intro l hl; simp only [mem_singleton] at hl; exact Or.inl hl)
    (by intro b l hl
        by_cases hb : b = 0
        · simp only [hb, if_true, mem_singleton] at hl
          subst hl
          exact ⟨32, _, rfl, by decide⟩
        · simp [hb] at hl)
    (by decide)
    (by have h : ∀ r ∈ exRecsClu, r.1 ≠ [] ∧ r.1.length ≤ 200 ∧ ∀ b ∈ r.1, isSpace b = false := by decide
        exact fun r hr => ⟨(h r hr).1, (h r hr).2.1, (h r hr).2.2⟩)
    (by decide) (by decide) (by decide) (by decide)

/-- a FASTA file and a Clustal file holding the same two records: same result of the whole program, for every type,
every penalty and every output format -/
example (ver base date : Bytes) (type : Int) (gpo gpe tgpe : Float32) (fmt : Option String) :
    kalignFile ver base date [some exFasta] type gpo gpe tgpe fmt =
    kalignFile ver base date [some exClu] type gpo gpe tgpe fmt :=
  kalignFile_presentation_independent_one ver base date exFasta exClu _ _ exFasta_presents exClu_presents (by decide)
    type gpo gpe tgpe fmt

/-- the records cut into two files (same residues in both, so that `ClassOK` holds without evaluating the
floating-point scores) against one file holding both; `hdef` is a statement about binary64 arithmetic (it evaluates to
`true` with `#eval`) and stays a hypothesis here -/
example (ver base date : Bytes) (type : Int) (gpo gpe tgpe : Float32) (fmt : Option String)
    (hdef : (finishMsa ([[recOf (ascii "a", [ascii "AC-GT"])], [recOf (ascii "b", [ascii "AC", ascii "G.T"])]].flatten) 2 255).biotype ≠ 2) :
    kalignFile ver base date ([emit ([] ++ faPres [(ascii "a", [ascii "AC-GT"])]),
        emit ([] ++ faPres [(ascii "b", [ascii "AC", ascii "G.T"])])].map some) type gpo gpe tgpe fmt =
    kalignFile ver base date ([emit ([] ++ faPres [(ascii "a", [ascii "ACGT"]), (ascii "b", [ascii "A-CGT"])])].map some)
      type gpo gpe tgpe fmt := by
  have p : ∀ (recs : List (Bytes × List Bytes)), recs ≠ [] → (∀ r ∈ recs, ∀ l ∈ r.2, l.head? ≠ some 62) →
      (∀ l ∈ [] ++ faPres recs, ∀ b ∈ l, isCntrl b = false) → (∀ r ∈ recs, r.1 ≠ []) →
      detectFormat ([] ++ faPres recs) = 1 → Presents (emit ([] ++ faPres recs)) (recs.map recOf) := by
    intro recs hne h62 hcn hnm hdet
    refine Presents.fasta [] recs (by simp) h62 hne hcn ?_ hdet
    intro l ls h
    obtain ⟨r, rs, rfl⟩ := exists_cons_of_ne_nil hne
    simp only [faPres, flatMap_cons, nil_append, cons_append, cons.injEq] at h
    rw [← h.1]
    have := hnm r (by simp)
    cases hr : r.1 with
    | nil => exact absurd hr this
    | cons => simp
  refine kalignFile_presentation_independent ver base date _ _
    [[recOf (ascii "a", [ascii "AC-GT"])], [recOf (ascii "b", [ascii "AC", ascii "G.T"])]]
    [[recOf (ascii "a", [ascii "ACGT"]), recOf (ascii "b", [ascii "A-CGT"])]] (by simp) (by simp)
    (.cons (p [(ascii "a", [ascii "AC-GT"])] (by simp) (by decide) (by decide) (by decide) (by decide))
      (.cons (p [(ascii "b", [ascii "AC", ascii "G.T"])] (by simp) (by decide) (by decide) (by decide) (by decide)) .nil))
    (.cons (p [(ascii "a", [ascii "ACGT"]), (ascii "b", [ascii "A-CGT"])] (by simp) (by decide) (by decide) (by decide) (by decide)) .nil)
    ?_ ⟨trivial, trivial⟩ (by decide) hdef type gpo gpe tgpe fmt
  refine ⟨trivial, Or.inr ?_, trivial⟩
  simp only [IO.mergeStep]
  rw [finishMsa_biotype, finishMsa_biotype]
  rw [letterFreq_depends_on_residues _ [recOf (ascii "b", [ascii "AC", ascii "G.T"])] (by decide)]

/-! ## (d) integrity of the whole program -/

theorem filter_renderB (g : GRow) (h : ∀ c ∈ degap g, charByte c ≠ 45) :
    (renderB g).filter (· ≠ 45) = (degap g).map charByte := by
  induction g with
  | nil => rfl
  | cons x r ih =>
    cases x with
    | none =>
      rw [degap_cons_none] at h ⊢
      simp only [renderB, map_cons] at ih ⊢
      rw [filter_cons_of_neg (by simp)]
      exact ih h
    | some c =>
      rw [degap_cons_some] at h ⊢
      simp only [renderB, map_cons] at ih ⊢
      rw [filter_cons_of_pos (by simpa using h c (by simp)), ih (fun d hd => h d (by simp [hd]))]

/-- what a successful run wrote: the msa `m` the reading loop produced, the alignment `A` handed to the writer and the
format id `t` (1 FASTA, 2 MSF, 3 Clustal) -/
structure Wrote (ver base date : Bytes) (files : List (Option Bytes)) (fmt : Option String) (out : Bytes)
    (m : Msa) (A : Alignment) (t : Nat) : Prop where
  /-- no file is missing and `kalign_read_input` on the files in turn leaves `m` -/
  read : readFiles files = .ok m
  /-- `m` holds the records of the files in file order -/
  seqs : m.seqs = ((files.filterMap id).map fileRecs).flatten
  /-- the `--format` word selects writer `t` -/
  fmt : (t = 1 ∨ t = 2 ∨ t = 3) ∧ parseFormat (fmtBytes fmt) = some (t : Int)
  /-- the output file is what that writer produces for `A` (`writeAs`, Props/C06.lean) -/
  out : out = writeAs ver date t A
  /-- the writer stays inside the rows -/
  inb : A.InBounds
  /-- class and base name in the header are those of the run -/
  hdr : A.biotype = m.biotype ∧ (m.biotype = 0 ∨ m.biotype = 1) ∧ A.L = alnAlphabet (bioOfCode m.biotype) ∧
    A.basename = base

/-- **(d) `kalignFile_integrity`** (C01 for the whole program, file API): if `run_kalign` succeeds, the alignment it
writes has exactly one row per non-empty record of the input files — the files in the order given, the records in the
order they appear — under the record's name; removing the gap characters from a row gives back the record's residues;
rows consist of letters and `'-'` only; all rows have the declared length `alnlen`; there are at least two rows. -/
theorem kalignFile_integrity {ver base date : Bytes} {files : List (Option Bytes)} {type : Int} {gpo gpe tgpe : Float32}
    {fmt : Option String} {out : Bytes} (h : kalignFile ver base date files type gpo gpe tgpe fmt = .ok out) :
    ∃ m A t, Wrote ver base date files fmt out m A t ∧
      A.rows.map (fun r => (r.name, r.row.filter (· ≠ 45))) = keptRecs m.seqs ∧
      (∀ r ∈ A.rows, ∀ b ∈ r.row, b = 45 ∨ isAlpha b = true) ∧
      (∀ r ∈ A.rows, r.row.length = A.alnlen) ∧ 2 ≤ A.rows.length := by
  obtain ⟨m, rows, t, hread, hrun, ht, hp, hin, hout⟩ := kalignFile_ok h
  obtain ⟨hseqs, hrec⟩ := readFiles_seqs files m hread
  obtain ⟨hkept, _, h2, hbio⟩ := runMsa_spec hrun
  have halpha : ∀ x ∈ rows, ∀ b ∈ (degap x.2).map charByte, isAlpha b = true := by
    intro x hx b hb
    obtain ⟨_, s0, hs0, he⟩ := mem_keptRecs (row_mem_kept hrun hx)
    simp only [Prod.mk.injEq] at he
    rw [he.2] at hb
    exact (hrec s0 hs0).1 b hb
  refine ⟨m, alignmentOf rows m.biotype base, t, ⟨hread, hseqs, ⟨ht, hp⟩, hout, hin, rfl, hbio, rfl, rfl⟩, ?_, ?_,
    alignmentOf_rows_length hrun _ _, by simpa [alignmentOf] using h2⟩
  · rw [← hkept]
    simp only [alignmentOf, map_map]
    apply map_congr_left
    intro x hx
    simp only [Function.comp, Prod.mk.injEq, true_and]
    apply filter_renderB
    intro c hc hc45
    have := halpha x hx (charByte c) (mem_map_of_mem hc)
    rw [hc45] at this
    exact absurd this (by decide)
  · intro r hr b hb
    simp only [alignmentOf, mem_map] at hr
    obtain ⟨x, hx, rfl⟩ := hr
    simp only [renderB, mem_map] at hb
    obtain ⟨o, ho, rfl⟩ := hb
    cases o with
    | none => exact Or.inl rfl
    | some c =>
      refine Or.inr (halpha x hx _ (mem_map_of_mem ?_))
      simp only [degap, mem_filterMap, id]
      exact ⟨some c, ho, rfl⟩

/-- the guard of `runMsa` on the gap vectors (the one place where the file path could leave the ground covered by the
stage models) never fires: a run never ends with `FileErr.run PipeErr.fault` because of it -/
theorem kalignFile_no_fault (files : List (Option Bytes)) (m : Msa) (h : readFiles files = .ok m) (type : Int)
    (gpo gpe tgpe : Float32) :
    runMsa m type gpo gpe tgpe =
      kalignRunWith (fun _ => bioOfCode m.biotype) true ((dealignStep m).seqs.map toInSeq) type gpo gpe tgpe := by
  unfold runMsa
  simp only [gapsClear_of_read files m h, Bool.not_true, Bool.false_eq_true, if_false, dealignStep_biotype]

/-! ## (b) shape of the output file -/

/-- FASTA (`fasta_shape`): per row the header line `>name`, then the row cut into lines that are exactly 60 wide except
the last one, which is 1..60 wide -/
def FastaShape (A : Alignment) (out : Bytes) : Prop :=
  out = emit (A.rows.flatMap fun r => (62 :: r.name) :: faChunks A.alnlen r) ∧
  ∀ r ∈ A.rows,
    (faChunks A.alnlen r).flatten = r.row.take A.alnlen ∧
    (∀ c ∈ (faChunks A.alnlen r).dropLast, c.length = 60) ∧
    (∀ c ∈ faChunks A.alnlen r, 1 ≤ c.length ∧ c.length ≤ 60)

/-- `block_columns`: `max 1 ⌈alnlen/60⌉` blocks of at most 60 columns whose columns concatenate to the row
(`blockText A b` lists every sequence of `A` in order: Lemmas/IO/Range.lean) -/
def BlocksShape (A : Alignment) : Prop :=
  ∀ r ∈ A.rows,
    numBlocks A.alnlen = max 1 ((A.alnlen + 59) / 60) ∧
    (∀ b, (chunkOf (r.row.take A.alnlen) b).length ≤ 60) ∧
    ((List.range (numBlocks A.alnlen)).map (chunkOf (r.row.take A.alnlen))).flatten = r.row.take A.alnlen

/-- Clustal (`blocks_shape_clu`): title line, empty line, then the blocks, every block listing every sequence -/
def CluShape (ver : Bytes) (A : Alignment) (out : Bytes) : Prop :=
  out = emit ([ascii "Kalign (" ++ ver ++ ascii ") multiple sequence alignment", []] ++
    (List.range (numBlocks A.alnlen)).flatMap (blockText A)) ∧ BlocksShape A

/-- MSF (`blocks_shape_msf`, `msf_len`, `msf_checksums`, `msf_type`): header, then the blocks; the header declares the
true alignment length (in the `MSF:` field and in every `Len:` field), the true GCG checksum of every row and their sum
mod 10000, and the molecule type of the run -/
def MsfShape (date : Bytes) (A : Alignment) (out : Bytes) : Prop :=
  out = emit ([msfMagic A, [], msfInfoLine date A, []] ++ A.rows.map (msfNameLine (maxNameLen A) A.alnlen) ++
    [[], ascii "//", []] ++ (List.range (numBlocks A.alnlen)).flatMap (blockText A)) ∧
  BlocksShape A ∧
  (∃ rest, msfInfoLine date A = 32 :: A.basename ++ ascii "  MSF: " ++ decDigits A.alnlen ++ ascii "  Type: " ++ rest) ∧
  (∀ r ∈ A.rows, ∃ pre post, msfNameLine (maxNameLen A) A.alnlen r =
      pre ++ ascii "  Len:  " ++ padLeft 5 (decDigits A.alnlen) ++ ascii "  Check: " ++ post) ∧
  decValue (decDigits A.alnlen) = A.alnlen ∧
  (∀ r ∈ A.rows, ∃ pre, msfNameLine (maxNameLen A) A.alnlen r =
      pre ++ ascii "  Check: " ++ padLeft 4 (decDigits (gcgSum 0 r.row % 10000)) ++ ascii "  Weight: 1.00") ∧
  (∃ pre, msfInfoLine date A =
      pre ++ ascii "  Check: " ++ decDigits ((A.rows.map fun r => gcgSum 0 r.row % 10000).sum % 10000) ++ ascii "  ..") ∧
  ((A.biotype = 0 ∧ msfMagic A = ascii "!!AA_MULTIPLE_ALIGNMENT 1.0" ∧ msfTypeChar A = 80) ∨
   (A.biotype = 1 ∧ msfMagic A = ascii "!!NA_MULTIPLE_ALIGNMENT 1.0" ∧ msfTypeChar A = 78))

theorem blocksShape_of (A : Alignment) (hb : A.InBounds) : BlocksShape A :=
  fun r hr => block_columns A r hr hb

/-- **(b) `kalignFile_output_shape`** (C15 for the whole program): every file `run_kalign` writes is well-formed for the
format selected by `--format`: FASTA wrapped at 60; Clustal / MSF with their header and blocks of at most 60 columns,
every sequence in every block; the MSF header with the true length, the true per-row GCG checksums and the type letter
of the run (`P` for a protein run, `N` for a nucleotide run).  `A` is the alignment of `kalignFile_integrity`. -/
theorem kalignFile_output_shape {ver base date : Bytes} {files : List (Option Bytes)} {type : Int} {gpo gpe tgpe : Float32}
    {fmt : Option String} {out : Bytes} (h : kalignFile ver base date files type gpo gpe tgpe fmt = .ok out) :
    ∃ m A t, Wrote ver base date files fmt out m A t ∧
      (t = 1 → FastaShape A out) ∧ (t = 3 → CluShape ver A out) ∧ (t = 2 → MsfShape date A out) := by
  obtain ⟨m, A, t, w, _, _, hlen, _⟩ := kalignFile_integrity h
  refine ⟨m, A, t, w, ?_, ?_, ?_⟩
  · intro ht
    have ho := w.out
    rw [ht] at ho
    simp only [writeAs, if_true] at ho
    rw [ho]
    exact fasta_shape A
  · intro ht
    have ho := w.out
    rw [ht] at ho
    simp only [writeAs, show ¬ (3 = 1) by decide, show ¬ (3 = 2) by decide, if_false] at ho
    rw [ho]
    exact ⟨blocks_shape_clu ver A w.inb, blocksShape_of A w.inb⟩
  · intro ht
    have ho := w.out
    rw [ht] at ho
    simp only [writeAs, show ¬ (2 = 1) by decide, if_false, if_true] at ho
    rw [ho]
    obtain ⟨l1, l2, l3⟩ := msf_len_of_width date A
    obtain ⟨c1, c2⟩ := msf_checksums_of_width date A hlen
    obtain ⟨hb, hcls, hL, _⟩ := w.hdr
    refine ⟨blocks_shape_msf date A w.inb, blocksShape_of A w.inb, l1, l2, l3, c1, c2, ?_⟩
    rcases hcls with h0 | h1
    · exact Or.inl ⟨by rw [hb, h0], (msf_type A).1 (by rw [hb, h0])⟩
    · have hb1 : A.biotype = 1 := by rw [hb, h1]
      have hL13 : A.L ≠ 13 := by rw [hL, h1]; decide
      exact Or.inr ⟨hb1, (msf_type A).2 hb1 hL13⟩

/-! ## (c) reading the output back -/

/-- **(c) `kalignFile_roundtrip`** (C06 for the whole program): reading the file `run_kalign` wrote with
`kalign_read_input` returns exactly the aligned sequences `S` that were written — `S` has the names and residues of the
non-empty input records in input order and gap vectors of one common width, and the written alignment is
`finalise_alignment` of `S` — with the format sniffed correctly and the alphabet/status recomputed from `S`.
Hypotheses besides the run: the decidable name well-formedness `AlnWF` requires, for the non-empty records of the
input (`hn`: 1..200 characters over `[A-Za-z0-9_.|-]`), and `FileOK` for version string, output base name and date. -/
theorem kalignFile_roundtrip {ver base date : Bytes} {files : List (Option Bytes)} {type : Int} {gpo gpe tgpe : Float32}
    {fmt : Option String} {out : Bytes} (ok : FileOK ver base date)
    (hn : ∀ m, readFiles files = .ok m → ∀ p ∈ keptRecs m.seqs, NameOK p.1)
    (h : kalignFile ver base date files type gpo gpe tgpe fmt = .ok out) :
    ∃ m S t, readFiles files = .ok m ∧ AlnWF S ∧ namesRes S = keptRecs m.seqs ∧
      out = writeAs ver date t (finalise S m.biotype (alnAlphabet (bioOfCode m.biotype)) base) ∧
      readInput out = .ok (finishMsa S 2 255) := by
  obtain ⟨m, rows, t, hread, hrun, _, _, _, hout⟩ := kalignFile_ok h
  obtain ⟨_, hrec⟩ := readFiles_seqs files m hread
  have wf := alnWF_rows hrun hrec (hn m hread)
  rw [alignmentOf_eq_finalise] at hout
  refine ⟨m, rows.map recOfRow, t, hread, wf, ?_, hout, ?_⟩
  · rw [← (runMsa_spec hrun).1]
    simp [namesRes, recOfRow, Function.comp_def]
  · rw [hout]
    exact roundtrip_any _ wf _ _ ver base date ok t

/-! ### non-vacuity of (b), (c), (d)

`kalignFile … = .ok out` involves binary32 arithmetic, which the kernel cannot evaluate; on the input below
`#eval kalignFile (ascii "3.4.1") (ascii "out.msf") exDate [some exFasta] (-1) (-1) (-1) (-1) (some "msf")` returns
`.ok` (a 2-row MSF file; the same for "fasta" and "clu").  The remaining hypotheses are checked here. -/

def exDate : Bytes := ascii "September 27, 2026 12:00"

theorem exFasta_recs (m : Msa) (h : readFiles [some exFasta] = .ok m) : m.seqs = exRecsFa.map recOf := by
  have e : [some exFasta] = [exFasta].map some := rfl
  rw [e, readFiles_map_some] at h
  have := readInputs_split [exFasta] [exRecsFa.map recOf] none (.cons exFasta_presents.reads .nil) ⟨trivial, trivial⟩
  rw [this] at h
  simp only [accum, IO.mergeStep, ReadResult.ok.injEq] at h
  rw [← h, finishMsa_seqs]

/-- the hypotheses `ok` and `hn` of `kalignFile_roundtrip` hold for the FASTA file `exFasta` (names `s1`, `a|b`) -/
example (type : Int) (gpo gpe tgpe : Float32) (fmt : Option String) (out : Bytes)
    (h : kalignFile (ascii "3.4.1") (ascii "out.msf") exDate [some exFasta] type gpo gpe tgpe fmt = .ok out) :
    ∃ m S t, readFiles [some exFasta] = .ok m ∧ AlnWF S ∧ namesRes S = keptRecs m.seqs ∧
      out = writeAs (ascii "3.4.1") exDate t (finalise S m.biotype (alnAlphabet (bioOfCode m.biotype)) (ascii "out.msf")) ∧
      readInput out = .ok (finishMsa S 2 255) :=
  kalignFile_roundtrip (by decide) (by
    intro m hm p hp
    rw [exFasta_recs m hm] at hp
    revert p
    decide) h

/-- on that input the records `kalignFile_integrity` speaks about are the two records of the file -/
example (m : Msa) (h : readFiles [some exFasta] = .ok m) :
    keptRecs m.seqs = [(ascii "s1", ascii "ACGT"), (ascii "a|b", ascii "AGTT")] := by
  rw [exFasta_recs m h]; decide

/-! ## (e) C10 along `recursive_aln` of the composed pipeline

`Pipeline.recAln` returns every completed node as a value, so "node `v`'s alignment when it was completed" is the value
`V` of the call that completed it (`nodeVal … fuel' x' = .ok V`), and "the final alignment" is the value `R` of a call
above it in the call tree (`Calls`, Lemmas/PipelineC10.lean; for the whole run `R` is the root:
`recAln_eq_nodeVal`).  The proof follows one path of the call tree with the building blocks of
`C10_subalignment_preserved` (`dropAllGapCols_weaveA/B`, `updA_row`/`updB_row`, `merge_ok`); that theorem itself speaks
about `alignTree` for an aligner that is a function of the two groups, which `do_align` (profiles, flags) is not. -/

theorem recAln_eq_nodeVal (ap : AlnParam Float32) (tasks : Array (Nat × Nat × Nat)) (codes : Array (List Nat))
    (n fuel k : Nat) : recAln ap tasks codes n fuel k = nodeVal ap tasks codes n fuel (k + n) := by
  unfold nodeVal
  rw [if_pos (by omega), Nat.add_sub_cancel]

/-- **(e) `recAln_subalignment_preserved`**: let `V` be a node completed during the evaluation of node `R`.  Every member
of `V` is a member of `R` (`f m`: same input index, same residues), and the rows of these members in `R`, with the
columns that are gaps in all of them removed, are exactly the rows `V` had when it was completed: later merges only
insert all-gap columns into a finished sub-alignment.  No hypothesis besides the two successful calls. -/
theorem recAln_subalignment_preserved (ap : AlnParam Float32) (tasks : Array (Nat × Nat × Nat)) (codes : Array (List Nat))
    (n : Nat) {fuel x fuel' x' : Nat} (hc : Calls tasks n (fuel, x) (fuel', x')) (R V : Node)
    (hR : nodeVal ap tasks codes n fuel x = .ok R) (hV : nodeVal ap tasks codes n fuel' x' = .ok V) :
    ∃ f : Member Nat → Member Nat,
      (∀ m ∈ V.group, f m ∈ R.group ∧ (f m).idx = m.idx ∧ (f m).seq.res = m.seq.res) ∧
      dropAllGapCols (V.group.map fun m => (f m).seq.row) R.group.plen = V.group.map (·.seq.row) := by
  obtain ⟨f, w⟩ := recAln_members_woven ap tasks codes n hc R V hR hV
  exact ⟨f, fun m hm => ⟨w.mem m hm, w.idx m hm, w.res m hm⟩, w.rows⟩

/- Full statement wanted (the literal form of `C10_subalignment_preserved`, rows looked up by input index):

     theorem recAln_subalignment_finalRow … (hc) (hR) (hV) :
       dropAllGapCols (V.group.map fun m => (finalRow R.group m.idx).getD []) R.group.plen = V.group.map (·.seq.row)

   `finalRow` finds the first member with a given index, so the statement needs the member indices of `R` to be pairwise
   distinct.  For the task tables `buildTasks` produces this holds (the table is the labelled guide tree over the leaves
   `0..n-1`), but the lemma "`recAln` on `sortTasks (treeTasks t n)` visits every leaf once" is not proved; it is the
   explicit hypothesis `hnd` (decidable on the result `R`). -/
/-- **`recAln_subalignment_finalRow`, partial**: the C10 form with `finalRow`, given distinct member indices in `R` -/
theorem recAln_subalignment_finalRow_partial (ap : AlnParam Float32) (tasks : Array (Nat × Nat × Nat))
    (codes : Array (List Nat)) (n : Nat) {fuel x fuel' x' : Nat} (hc : Calls tasks n (fuel, x) (fuel', x')) (R V : Node)
    (hR : nodeVal ap tasks codes n fuel x = .ok R) (hV : nodeVal ap tasks codes n fuel' x' = .ok V)
    (hnd : (R.group.map (·.idx)).Nodup) :
    dropAllGapCols (V.group.map fun m => (finalRow R.group m.idx).getD []) R.group.plen = V.group.map (·.seq.row) := by
  obtain ⟨f, w⟩ := recAln_members_woven ap tasks codes n hc R V hR hV
  rw [woven_finalRow w hnd]
  exact w.rows

/-- non-vacuity of `Calls`: in the task table of three sequences `[(0, 1, 3), (3, 2, 4)]` (node 3 = merge of the leaves
0 and 1, node 4 = merge of node 3 and leaf 2) the evaluation of the root 4 evaluates node 3, leaf 2 and leaf 0 -/
example : Calls #[(0, 1, 3), (3, 2, 4)] 3 (2, 4) (1, 3) ∧ Calls #[(0, 1, 3), (3, 2, 4)] 3 (2, 4) (1, 2) ∧
    Calls #[(0, 1, 3), (3, 2, 4)] 3 (2, 4) (0, 0) :=
  ⟨.left (a := 3) (b := 2) (c := 4) (by decide) (by decide) (.refl _),
   .right (a := 3) (b := 2) (c := 4) (by decide) (by decide) (.refl _),
   .left (a := 3) (b := 2) (c := 4) (by decide) (by decide)
     (.left (a := 0) (b := 1) (c := 3) (by decide) (by decide) (.refl _))⟩

/-- the leaves are completed nodes too: their value needs no arithmetic -/
example (ap : AlnParam Float32) :
    nodeVal ap #[(0, 1, 3), (3, 2, 4)] #[[0, 1], [1], [2, 2]] 3 1 2 = .ok (leafNode #[[0, 1], [1], [2, 2]] 2) := rfl

end Kalign.PipelineFile
