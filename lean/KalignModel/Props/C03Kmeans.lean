import KalignModel.Lemmas.Kmeans
/-!
# C03 (guide tree part) — the bisecting k-means tree for ≥ 100 sequences

Model: Model/Kmeans.lean (bit-exact with bisectingKmeans.c / euclidean_dist.c / pick_anchor.c; tied to the
running code by the ops of harness/ops_kmeans.c, generator tools/gen_kmeans.py).

* `split2_partition` — whatever the distance matrix contains (NaN and ±inf included), a `split2` that returns
  hands back two sample lists that are sub-lists of the input (order kept), disjoint when the input has no
  duplicates, together a permutation of the input, and both non-empty when there are at least two samples.
  In particular the "one side empty" fallback keeps ALL samples also for odd counts (`n/2` left, `n - n/2` right).
  `split2_total`: it returns whenever the samples index rows of `dm` and the seed index is in range.
* `bisectingKmeans_leaves` — the leaves of the tree are a permutation of the input samples, for every `dm`,
  given that the small-set builder (`d_estimation(…,1)` + `upgma`, a parameter here) returns a tree over exactly
  its samples.  `bisectingKmeans_fuel`: the recursion budget the model passes (`samples.length`) always
  suffices — the budget hides no non-termination.  `bisectingKmeans_total`: no fault when all samples index
  rows of `dm` of at least `num_var` floats; in particular `samples[seed_pick]` is always in range:
  `tries = 40`, the largest seed index is `39 * (n / 40) < n`.
* `kmeans_round_order_irrelevant` / `kmeans_fn_of_canon` — the tree is a function of `(dm, numAnchors, samples)`
  by construction of the model; what has to be shown for the OpenMP build is that the completion order of the
  four `split2` tasks of a round cannot influence `best`/`change`: the tasks write disjoint slots `res[k]` and
  the reduction `j = 0..3` runs after the `taskwait`.  Every schedule of the round (`Lin kmeansRoundProg sched`,
  Model/Sched.lean) ends in the state of the serial elision, whose `best`, `change` are `reduceRes` — the
  function `roundsGo` uses.
-/
namespace Kalign.Kmeans
open Kalign Kalign.Sched

/-! ## (a) -/

theorem split2_partition {avx : Bool} {dm : Array (Array Float32)} {samples : List Nat} {na seed : Nat}
    {r : Split} (h : split2 avx dm samples na seed = some r) :
    (r.sl ++ r.sr).Perm samples ∧
    (samples.Nodup → ∀ a ∈ r.sl, a ∉ r.sr) ∧
    (2 ≤ samples.length → r.sl ≠ [] ∧ r.sr ≠ []) ∧
    r.sl.Sublist samples ∧ r.sr.Sublist samples := by
  have hg := split2_good h
  refine ⟨hg.perm, ?_, hg.nonempty, hg.subl, hg.subr⟩
  intro hnd a ha hb
  have : (r.sl ++ r.sr).Nodup := hg.perm.nodup_iff.2 hnd
  exact (List.nodup_append.1 this).2.2 a ha a hb rfl

theorem split2_total {avx : Bool} {dm : Array (Array Float32)} {samples : List Nat} {na seed : Nat}
    (hv : RowsValid dm na samples) (hs : seed < samples.length) :
    ∃ r, split2 avx dm samples na seed = some r :=
  split2_isSome hv hs

/-- non-vacuity of `split2_partition` / `split2_total`: three samples, three anchors, rows of `num_var = 8` floats -/
example : ∃ r, split2 true (Array.replicate 3 (Array.replicate 8 (0 : Float32))) [0, 1, 2] 3 1 = some r := by
  apply split2_total
  · intro s hs
    simp only [List.mem_cons, List.not_mem_nil, or_false] at hs
    rcases hs with rfl | rfl | rfl <;> exact ⟨Array.replicate 8 0, by simp, by simp [numVarOf]⟩
  · decide

/-! ## (b) -/

theorem bisectingKmeans_leaves {avx : Bool} {dm : Array (Array Float32)} {na : Nat} {small : List Nat → Tree}
    {samples : List Nat} (hsmall : ∀ l, l ≠ [] → (small l).leaves.Perm l) (hne : samples ≠ []) {t : Tree}
    (h : bisectingKmeans avx dm na small samples = .ok t) : t.leaves.Perm samples :=
  (bisect_spec avx dm na small hsmall samples.length samples hne (Nat.le_refl _)).1 t h

theorem bisectingKmeans_fuel {avx : Bool} {dm : Array (Array Float32)} {na : Nat} {small : List Nat → Tree}
    {samples : List Nat} (hsmall : ∀ l, l ≠ [] → (small l).leaves.Perm l) (hne : samples ≠ []) :
    bisectingKmeans avx dm na small samples ≠ .error .fuel :=
  (bisect_spec avx dm na small hsmall samples.length samples hne (Nat.le_refl _)).2.1

theorem bisectingKmeans_total {avx : Bool} {dm : Array (Array Float32)} {na : Nat} {small : List Nat → Tree}
    {samples : List Nat} (hsmall : ∀ l, l ≠ [] → (small l).leaves.Perm l) (hne : samples ≠ [])
    (hv : RowsValid dm na samples) :
    ∃ t, bisectingKmeans avx dm na small samples = .ok t ∧ t.leaves.Perm samples := by
  obtain ⟨h1, _, h3⟩ := bisect_spec avx dm na small hsmall samples.length samples hne (Nat.le_refl _)
  obtain ⟨t, ht⟩ := h3 hv
  exact ⟨t, ht, h1 t ht⟩

/-- `samples[seed_pick]` of every restart of every round is in range (for the sample counts that reach the
rounds): the C expression `(i + 3) * step` with `i ≤ 36`, `step = n / 40` -/
theorem seed_pick_in_range (n i k : Nat) (hn : 100 ≤ n) (hi : i < 40) (hi4 : i % 4 = 0) (hk : k < 4) :
    (i + k) * (n / (if kmTries < n then kmTries else n)) < n := by
  have : kmTries < n := by show 40 < n; omega
  rw [if_pos this]
  show (i + k) * (n / 40) < n
  have h1 : (i + k) * (n / 40) ≤ 39 * (n / 40) := Nat.mul_le_mul_right _ (by omega)
  have h2 : 40 * (n / 40) ≤ n := Nat.mul_div_le _ _
  omega

theorem caterpillar_leaves (l : List Nat) (hne : l ≠ []) : (caterpillar l).leaves = l := by
  cases l with
  | nil => exact absurd rfl hne
  | cons s rest =>
    simp only [caterpillar]
    have : ∀ (t : Tree) (xs : List Nat),
        (xs.foldl (fun t x => Tree.node t (Tree.leaf x)) t).leaves = t.leaves ++ xs := by
      intro t xs
      induction xs generalizing t with
      | nil => simp
      | cons x xs ih => simp [List.foldl_cons, ih, Tree.leaves]
    rw [this]; rfl

/-- non-vacuity of the hypotheses of (b): the stand-in of the correspondence ops is a valid small-set builder,
and a 3 × 8 zero matrix is valid for three samples -/
example : ∃ t, bisectingKmeans true (Array.replicate 3 (Array.replicate 8 (0 : Float32))) 3 caterpillar [0, 1, 2] = .ok t ∧
    t.leaves.Perm [0, 1, 2] :=
  bisectingKmeans_total (fun l hl => by rw [caterpillar_leaves l hl]) (by simp)
    (by
      intro s hs
      simp only [List.mem_cons, List.not_mem_nil, or_false] at hs
      rcases hs with rfl | rfl | rfl <;> exact ⟨Array.replicate 8 0, by simp, by simp [numVarOf]⟩)

/-- the task list built from the tree has `numseq - 1` entries and `sort_tasks` only reorders it -/
theorem buildTreeTasks_count {avx : Bool} {dm : Array (Array Float32)} {na : Nat} {small : List Nat → Tree}
    {numseq : Nat} (hsmall : ∀ l, l ≠ [] → (small l).leaves.Perm l) (hn : 0 < numseq)
    {ts : List (Nat × Nat × Nat)} (h : buildTreeTasks avx dm na small numseq = .ok ts) :
    ts.length + 1 = numseq ∧ (sortTasks ts).Perm ts := by
  unfold buildTreeTasks at h
  cases hb : bisectingKmeans avx dm na small (List.range numseq) with
  | error e => rw [hb] at h; cases h
  | ok t =>
    rw [hb] at h
    simp only [Except.ok.injEq] at h
    subst h
    have hne : List.range numseq ≠ [] := by
      intro h0
      have := congrArg List.length h0
      simp at this; omega
    have hp := bisectingKmeans_leaves hsmall hne hb
    refine ⟨?_, msortBy_perm _ _⟩
    rw [treeTasks_length, hp.length_eq, List.length_range]

/-- `pick_anchor` returns `MIN(32, numseq)` valid sequence indices (never reads outside `seq_sort[]`) -/
theorem pickAnchors_total (lens : List Nat) (hne : lens ≠ []) :
    ∃ a, pickAnchors lens = some a ∧ a.length = min 32 lens.length ∧ ∀ x ∈ a, x < lens.length :=
  pickAnchors_spec lens hne

/-! ## (c) -/

/-- **the completion order of the four restarts does not matter**: for every schedule of a round the final
`best` and `change` are the values of the sequential reduction over `res[0..3]` used by `roundsGo` -/
theorem kmeans_round_order_irrelevant (sp : Nat → Option Split) (step i : Nat) (best : Option Split)
    (rs : List Split) (hrs : roundRes sp step i = some rs)
    (sched : List KmAtom) (hs : Lin kmeansRoundProg sched)
    (s0 : KmLoc → KmVal) (hi : s0 .input = .num i) (hb : s0 .best = .ptr best) :
    let s := exec (kmSem sp step).act sched s0
    s .best = .ptr (reduceRes (best, 0) rs).1 ∧ s .change = .num (reduceRes (best, 0) rs).2 := by
  intro s
  have hdet : s = exec (kmSem sp step).act kmeansRoundProg.atoms s0 :=
    determinacy (kmSem sp step) (kmSem_wf sp step) (by rw [kmSem_fp]; exact kmeansRound_safe) hs s0
  rw [hdet]
  exact kmRound_serial sp step i best rs hrs s0 hi hb

/-- any two schedules of a round end in the same state (also when a restart faults): the round, hence the
tree, is a function of its inputs only -/
theorem kmeans_fn_of_canon (sp : Nat → Option Split) (step : Nat) (sched sched' : List KmAtom)
    (hs : Lin kmeansRoundProg sched) (hs' : Lin kmeansRoundProg sched') (s0 : KmLoc → KmVal) :
    exec (kmSem sp step).act sched s0 = exec (kmSem sp step).act sched' s0 :=
  schedules_agree (kmSem sp step) (kmSem_wf sp step) (by rw [kmSem_fp]; exact kmeansRound_safe) hs hs' s0

/-- non-vacuity: the restarts completing in the order 3, 2, 1, 0 is a schedule of the round … -/
theorem reversed_is_schedule :
    Lin kmeansRoundProg [.split 3, .split 2, .split 1, .split 0, .reduce] := by
  have h23 : Lin (.par (.atom (KmAtom.split 2)) (.atom (.split 3))) [.split 3, .split 2] :=
    .par .atom .atom (Shuffle.append_rev [KmAtom.split 2] [KmAtom.split 3])
  have h123 : Lin (.par (.atom (KmAtom.split 1)) (.par (.atom (.split 2)) (.atom (.split 3))))
      [.split 3, .split 2, .split 1] :=
    .par .atom h23 (Shuffle.append_rev [KmAtom.split 1] [KmAtom.split 3, KmAtom.split 2])
  have h0123 : Lin (parAll [.atom (KmAtom.split 0), .atom (.split 1), .atom (.split 2), .atom (.split 3)])
      [.split 3, .split 2, .split 1, .split 0] :=
    .par .atom h123 (Shuffle.append_rev [KmAtom.split 0] [KmAtom.split 3, KmAtom.split 2, KmAtom.split 1])
  exact .seq h0123 .atom

/-- … and `roundRes … = some rs` holds for restarts that do not fault -/
example : roundRes (fun k => some { sl := [k], sr := [], score := 0 }) 3 4 =
    some [{ sl := [12], sr := [], score := 0 }, { sl := [15], sr := [], score := 0 },
          { sl := [18], sr := [], score := 0 }, { sl := [21], sr := [], score := 0 }] := rfl

end Kalign.Kmeans
