import KalignModel.Props.C07Soft
import KalignModel.Lemmas.SoftExact7
/-!
# C07 on binary32, groups of identical copies (slice Z5) — the arithmetic part, and the rest as `_partial`

On the exact carrier (`Props/C07Prof.lean`) a profile of `k` identical copies turns the sequence–profile / profile–profile kernels
into the sequence–sequence kernels with every score multiplied by `K = k` resp. `K = k·m` (`C07_sp_kernels_scaled`,
`C07_pp_kernels_scaled`), and optimality follows from the sequence–sequence theorem on the scaled parameters.

Proved here for binary32:
* `C07Soft_mul_exact`: `half a * (float)k = half (a·k)` — the products `k·s`, `k·penalty` are computed exactly (`|a·k| < 2²⁴`).
* `C07Soft_dyadic_scale`: `DyadicParam U ap apE → DyadicParam (K·U) (scaleParamS ap K) (scaleParam apE K)` (`scaleParamS` = every score
  multiplied by `(float)K` in binary32): profile entries `k·s` are still dyadic, bounded by `K·U`.
* `C07Soft_scaled_alnRun_opt`: the binary32 controller on the `K`-scaled sequence–sequence problem returns `P` under the margin of
  `C07_hirschberg_seqprofile_copies_opt` with `len_b + 1000` for the tie-break term, sizes `K·U·(len_a + len_b + 1) + len_b/1000 + 1 < 2²⁴`.

**Partial** (`…_partial`; the missing fact is an explicit hypothesis).  Full statements:

    theorem C07Soft_hirschberg_seqprofile_copies_opt — as `C07Soft_hirschberg_seqprofile_copies_opt_partial` without `hK`,
      with `prof` the binary32 profile of `k` gap-free copies of `seqA` prepared by `set_gap_penalties_n` against one sequence;
    theorem C07Soft_hirschberg_profileprofile_copies_opt — as `…_profileprofile_copies_opt_partial` without `hK`.

Missing lemmas (binary32 counterparts of `sp_realKernels_eq` / `pp_realKernels_eq` in `Lemmas/ProfKernel.lean`, `ProfKernelPP.lean`):

    realKernels ap (.seqprof prof seq2 k) seqA.size lenB = realKernels (scaleParamS ap k) (.seqseq seqA seq2) seqA.size lenB
    realKernels ap (.profprof prof1 prof2) seqA.size seqB.size =
      realKernels (scaleParamS ap (k*m)) (.seqseq seqA seqB) seqA.size seqB.size

for `SoftF32` profiles whose slots are the binary32 images of `ProfOK` (slots 27/28/29 = `neg (gpo|gpe|tgpe * (float)(k·m))`, slots
`32+c` = `sub(seq[i], c) * (float)k`, count slot `(float)k`).  They hold as equalities of functions because `x + neg p = x − p` is one
and the same binary32 operation for every `x` (also NaN and `−0`), and for profile–profile because the dot product of a column of
identical copies has a single term `(float)k * (s·(float)m) = s·(float)(k·m)` (exact by `C07Soft_mul_exact`, symmetric matrix).  With
them, and with the binary32 counterpart of `Built` (`make_profile_n`, `update_n` on the diagonal and `set_gap_penalties_n` produce these
slots — sums and products of dyadic values, exact by `add_half`, `C07Soft_mul_exact`), `C08Soft` for groups follows as on the exact carrier.
-/
namespace Kalign
open SoftF32

theorem C07Soft_mul_exact {a : Int} {k : Nat} (hk1 : 1 ≤ k) (hk : k < 16777216) (ha : a.natAbs < 16777216)
    (hak : (a * k).natAbs < 16777216) : SoftF32.mul (half a) (SoftF32.ofNat k) = half (a * k) :=
  mul_half_ofNat hk1 hk ha hak

theorem C07Soft_dyadic_scale {U K : Nat} {ap : AlnParam SoftF32} {apE : AlnParam ExactScore} (hd : DyadicParam U ap apE)
    (hK1 : 1 ≤ K) (hK : K < 16777216) (hKU : K * U < 16777216) :
    DyadicParam (K * U) (scaleParamS ap K) (scaleParam apE K) :=
  dyadic_scale hd hK1 hK hKU

/-- the binary32 controller on the `K`-scaled sequence–sequence problem -/
theorem C07Soft_scaled_alnRun_opt (entry : Entry) (U K : Nat) (ap : AlnParam SoftF32) (apE : AlnParam ExactScore)
    (hd : DyadicParam U ap apE) (hK1 : 1 ≤ K) (hK : K < 16777216) (gpo gpe tgpe : Int) (s : Nat → Nat → Int)
    (hap : ApOK apE gpo gpe tgpe s) (hgpo : 0 ≤ gpo) (hgpe : 0 ≤ gpe) (htgpe : 0 ≤ tgpe)
    (seq1 seq2 : Array Nat) (h1A : 1 ≤ seq1.size) (h1B : 1 ≤ seq2.size)
    (hKU : K * U < 16777216)
    (hsize : (K * U) * (seq1.size + seq2.size + 1) + seq2.size / 1000 + 1 < 16777216) (hlenB : seq2.size < 4194304)
    (P : List Col) (hV : ValidCols P seq1.size seq2.size) (hadj : adjOK .A P = true)
    (hmargin : ∀ Q, ValidCols Q seq1.size seq2.size → adjOK .A Q = true → Q ≠ P →
      (K : Int) * scoreST s gpo gpe tgpe Q seq1.toList seq2.toList + ((seq2.size : Int) + 1000) <
        (K : Int) * (scoreST s gpo gpe tgpe P seq1.toList seq2.toList - gpo * (nterm P : Int) -
          (max 0 (max (tgpe - gpe) (tgpe - gpo)) + max 0 (gpe - tgpe)))) :
    let r := alnRun entry (scaleParamS ap K) (.seqseq seq1 seq2) seq1.size seq2.size (initMem seq1.size seq2.size)
    r.fault = false ∧
      ∃ codes, expandPath seq2.size (r.pathEntries seq1.size) = some codes ∧ codes.map Col.ofCode = P :=
  C07Soft_alnRun_opt entry (K * U) (scaleParamS ap K) (scaleParam apE K) (dyadic_scale hd hK1 hK hKU)
    (K * gpo) (K * gpe) (K * tgpe) (fun x y => (K : Int) * s x y) (scaleParam_ok apE gpo gpe tgpe s hap K)
    (Int.mul_nonneg (Int.natCast_nonneg K) hgpo) (Int.mul_nonneg (Int.natCast_nonneg K) hgpe)
    (Int.mul_nonneg (Int.natCast_nonneg K) htgpe) seq1 seq2 h1A h1B hsize hlenB P hV hadj
    (fun Q hQ hQadj hne => scaled_margin K gpo gpe tgpe s _ _ P Q _ (hmargin Q hQ hQadj hne))

/-- **sequence – profile, `k` identical copies (partial)**: `hK` = the binary32 counterpart of `C07_sp_kernels_scaled` -/
theorem C07Soft_hirschberg_seqprofile_copies_opt_partial (entry : Entry) (U : Nat) (ap : AlnParam SoftF32)
    (apE : AlnParam ExactScore) (hd : DyadicParam U ap apE) (gpo gpe tgpe : Int) (s : Nat → Nat → Int)
    (hap : ApOK apE gpo gpe tgpe s) (hgpo : 0 ≤ gpo) (hgpe : 0 ≤ gpe) (htgpe : 0 ≤ tgpe)
    (prof : Array SoftF32) (seqA seq2 : Array Nat) (k : Nat) (hk1 : 1 ≤ k) (hk : k < 16777216)
    (hK : realKernels ap (.seqprof prof seq2 k) seqA.size seq2.size =
      realKernels (scaleParamS ap k) (.seqseq seqA seq2) seqA.size seq2.size)
    (h1A : 1 ≤ seqA.size) (h1B : 1 ≤ seq2.size) (hkU : k * U < 16777216)
    (hsize : (k * U) * (seqA.size + seq2.size + 1) + seq2.size / 1000 + 1 < 16777216) (hlenB : seq2.size < 4194304)
    (P : List Col) (hV : ValidCols P seqA.size seq2.size) (hadj : adjOK .A P = true)
    (hmargin : ∀ Q, ValidCols Q seqA.size seq2.size → adjOK .A Q = true → Q ≠ P →
      (k : Int) * scoreST s gpo gpe tgpe Q seqA.toList seq2.toList + ((seq2.size : Int) + 1000) <
        (k : Int) * (scoreST s gpo gpe tgpe P seqA.toList seq2.toList - gpo * (nterm P : Int) -
          (max 0 (max (tgpe - gpe) (tgpe - gpo)) + max 0 (gpe - tgpe)))) :
    let r := alnRun entry ap (.seqprof prof seq2 k) seqA.size seq2.size (initMem seqA.size seq2.size)
    r.fault = false ∧
      ∃ codes, expandPath seq2.size (r.pathEntries seqA.size) = some codes ∧ codes.map Col.ofCode = P := by
  have hmain := C07Soft_scaled_alnRun_opt entry U k ap apE hd hk1 hk gpo gpe tgpe s hap hgpo hgpe htgpe seqA seq2 h1A h1B hkU
    hsize hlenB P hV hadj hmargin
  unfold alnRun at hmain ⊢
  simp only at hmain ⊢
  rw [hK]
  exact hmain

/-- **profile – profile, `k` copies against `m` copies (partial)**: `hK` = the binary32 counterpart of `C07_pp_kernels_scaled` -/
theorem C07Soft_hirschberg_profileprofile_copies_opt_partial (entry : Entry) (U : Nat) (ap : AlnParam SoftF32)
    (apE : AlnParam ExactScore) (hd : DyadicParam U ap apE) (gpo gpe tgpe : Int) (s : Nat → Nat → Int)
    (hap : ApOK apE gpo gpe tgpe s) (hgpo : 0 ≤ gpo) (hgpe : 0 ≤ gpe) (htgpe : 0 ≤ tgpe)
    (prof1 prof2 : Array SoftF32) (seqA seqB : Array Nat) (k m : Nat) (hk1 : 1 ≤ k * m) (hk : k * m < 16777216)
    (hK : realKernels ap (.profprof prof1 prof2) seqA.size seqB.size =
      realKernels (scaleParamS ap (k * m)) (.seqseq seqA seqB) seqA.size seqB.size)
    (h1A : 1 ≤ seqA.size) (h1B : 1 ≤ seqB.size) (hkU : k * m * U < 16777216)
    (hsize : (k * m * U) * (seqA.size + seqB.size + 1) + seqB.size / 1000 + 1 < 16777216) (hlenB : seqB.size < 4194304)
    (P : List Col) (hV : ValidCols P seqA.size seqB.size) (hadj : adjOK .A P = true)
    (hmargin : ∀ Q, ValidCols Q seqA.size seqB.size → adjOK .A Q = true → Q ≠ P →
      ((k * m : Nat) : Int) * scoreST s gpo gpe tgpe Q seqA.toList seqB.toList + ((seqB.size : Int) + 1000) <
        ((k * m : Nat) : Int) * (scoreST s gpo gpe tgpe P seqA.toList seqB.toList - gpo * (nterm P : Int) -
          (max 0 (max (tgpe - gpe) (tgpe - gpo)) + max 0 (gpe - tgpe)))) :
    let r := alnRun entry ap (.profprof prof1 prof2) seqA.size seqB.size (initMem seqA.size seqB.size)
    r.fault = false ∧
      ∃ codes, expandPath seqB.size (r.pathEntries seqA.size) = some codes ∧ codes.map Col.ofCode = P := by
  have hmain := C07Soft_scaled_alnRun_opt entry U (k * m) ap apE hd hk1 hk gpo gpe tgpe s hap hgpo hgpe htgpe seqA seqB h1A h1B
    hkU hsize hlenB P hV hadj hmargin
  unfold alnRun at hmain ⊢
  simp only at hmain ⊢
  rw [hK]
  exact hmain

/-! ## non-vacuity -/

/-- `5.5F * 3.0F = 16.5F`, `-4.0F * 64.0F = -256.0F`, computed exactly -/
example : SoftF32.mul (ofRaw 0x40b00000) (SoftF32.ofNat 3) = ofRaw 0x41840000 ∧ ofRaw 0x41840000 = half 33 ∧
    SoftF32.mul (half (-8)) (SoftF32.ofNat 64) = half (-512) := by decide +kernel

/-- the protein defaults scaled by `K = 6` (e.g. 2 copies against 3 copies) are dyadic with `U = 192`; `hsize` then admits
`len_a + len_b` up to about 87000 -/
example : DyadicParam (6 * 32) (scaleParamS (softParamOf 0 3) 6) (scaleParam (exactParam Gen.mat0 5500 2000 1000) 6) :=
  C07Soft_dyadic_scale C07Soft_dyadic_protein (by decide) (by decide) (by decide)

/-- the hypotheses of `C07Soft_scaled_alnRun_opt` are satisfiable: protein defaults, `K = 2`, a = (W,C,W), b = (W,W) (the margin of the
unscaled instance in `Props/C07Soft.lean` doubles), and the scaled binary32 run returns the same path -/
example : ((alnRun .parallel (scaleParamS (softParamOf 0 3) 2) (.seqseq #[17, 4, 17] #[17, 17]) 3 2 (initMem 3 2)).pathEntries 3) =
    [1, -1, 2] := by decide +kernel

end Kalign
