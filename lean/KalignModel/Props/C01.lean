import KalignModel.Lemmas.Weave
