import KalignModel.Lemmas.Progressive
import KalignModel.Props.C03Kmeans
/-!
# C01 — alignment integrity: every input sequence is reproduced exactly

Model: `alignTree` (Model/Progressive.lean) over an arbitrary guide tree and an arbitrary *valid*
pairwise aligner.  Theorems: one merge preserves the group invariant (`C01_merge_integrity`), hence
every completed node and the final alignment satisfy it (`C01_tree_integrity`); every input index
has exactly one row, which degaps to the input residues, and all rows have one length
(`C01_rows`); the expansion of a well-shaped Hirschberg path is a valid column list
(`C01_expandPath_valid`).
-/
namespace Kalign
variable {α : Type}

/-- invariant of a completed group -/
structure GroupOK (seqs : Nat → List α) (g : Group α) : Prop where
  wf : ∀ m ∈ g, m.seq.WF
  res : ∀ m ∈ g, m.seq.res = seqs m.idx
  len : ∀ m ∈ g, m.seq.row.length = g.plen
  nogapcol : NoAllGapCol (g.map (·.seq.row)) g.plen

theorem C01_merge_integrity (seqs : Nat → List α) (codes : List Nat) (A B : Group α)
    (hA : GroupOK seqs A) (hB : GroupOK seqs B) (hAne : A ≠ []) (hBne : B ≠ [])
    (hv : ValidCols (codes.map Col.ofCode) A.plen B.plen) :
    GroupOK seqs (mergeGroups codes A B) ∧ (mergeGroups codes A B).plen = codes.length := by
  have _ := hBne
  obtain ⟨h1, h2, h3, h4, h5⟩ :=
    merge_ok seqs codes A B hA.wf hA.res hA.len hA.nogapcol hB.wf hB.res hB.len hB.nogapcol hAne hv
  exact ⟨⟨h1, h2, fun m hm => by rw [h5]; exact h3 m hm, by rw [h5]; exact h4⟩, h5⟩

theorem C01_tree_integrity (seqs : Nat → List α) (al : Aligner α) (hal : al.Valid) (T : Tree) :
    GroupOK seqs (alignTree seqs al T) ∧
    ((alignTree seqs al T).map (·.idx)).Perm T.leaves := by
  obtain ⟨_, h1, h2, h3, h4, h5⟩ := alignTree_ok seqs al hal T
  exact ⟨⟨h1, h2, h3, h4⟩, h5⟩

/-- one row per input, found under its index, reproducing the residues, all of one length;
only gap characters (`none`) are added (that is what `degap row = seqs i` says). -/
theorem C01_rows (seqs : Nat → List α) (al : Aligner α) (hal : al.Valid) (T : Tree)
    (hnd : T.leaves.Nodup) :
    ∀ i ∈ T.leaves, ∃ row, finalRow (alignTree seqs al T) i = some row ∧
      degap row = seqs i ∧ row.length = (alignTree seqs al T).plen :=
  fun i hi => rows_ok seqs al hal T hnd i hi

/-- no column of the final alignment consists of gaps only -/
theorem C01_no_allgap_column (seqs : Nat → List α) (al : Aligner α) (hal : al.Valid) (T : Tree) :
    NoAllGapCol ((alignTree seqs al T).map (·.seq.row)) (alignTree seqs al T).plen :=
  (C01_tree_integrity seqs al hal T).1.nogapcol

/-- shape of a Hirschberg path that `add_gap_info_to_path_n` expands correctly: partners strictly
increasing within `1..lenB`; after a run of gap-in-b entries the next partner is the successor of the
last one (no gap-in-a run adjacent to a gap-in-b run); if the path ends in a gap-in-b run, b is
used up.  `last` = last partner seen (0 if none), `pg` = previous entry was -1. -/
def pathOKAux (lenB : Nat) : Int → Bool → List Int → Bool
  | last, pg, [] => if pg then last == (lenB : Int) else decide (last ≤ (lenB : Int))
  | last, pg, p :: ps =>
    if p == -1 then pathOKAux lenB last true ps
    else (if pg then p == last + 1 else decide (p > last)) && decide (p ≤ (lenB : Int)) &&
      pathOKAux lenB p false ps

def pathOK (lenB : Nat) (path : List Int) : Bool := pathOKAux lenB 0 false path

/-- glue: the Boolean test implies the Prop-valued shape used by the lemmas -/
theorem pathShape_of_pathOKAux (lenB : Nat) (last : Int) (pg : Bool) (ps : List Int)
    (h : pathOKAux lenB last pg ps = true) : PathShape lenB last pg ps := by
  induction ps generalizing last pg with
  | nil =>
    cases pg
    · exact .nilRes (by simpa [pathOKAux] using h)
    · exact .nilGap (by simpa [pathOKAux] using h)
  | cons p ps ih =>
    unfold pathOKAux at h
    by_cases hp : p = -1
    · subst hp
      exact .gap (ih _ _ (by simpa using h))
    · rw [if_neg (by simpa using hp)] at h
      simp only [Bool.and_eq_true, decide_eq_true_eq] at h
      obtain ⟨⟨h1, h2⟩, h3⟩ := h
      cases pg
      · exact .afterRes hp (by simpa using h1) h2 (ih _ _ h3)
      · exact .afterGap hp (by simpa using h1) h2 (ih _ _ h3)

theorem C01_expandPath_valid (lenB : Nat) (path : List Int) (hb : 1 ≤ lenB) (hne : path ≠ [])
    (h : pathOK lenB path = true) :
    ∃ codes, expandPath lenB path = some codes ∧
      ValidCols (codes.map Col.ofCode) path.length lenB :=
  expandPath_valid_of_shape lenB path hb hne (pathShape_of_pathOKAux lenB 0 false path h)

/-- non-vacuity: a concrete path with leading, internal and trailing gaps on both sides -/
example : pathOK 7 [2, 3, -1, -1, 4, 6, 7, -1] = true := by decide
example : expandPath 7 [2, 3, -1, -1, 4, 6, 7, -1] = some [33, 0, 0, 2, 2, 0, 1, 0, 0, 34] := by decide

end Kalign
