import KalignModel.Lemmas.IO.Fasta
import KalignModel.Lemmas.IO.Range
import KalignModel.Lemmas.IO.Numbers
/-!
# C15 — every file kalign writes is well-formed for its format

Model: `writeFasta`, `writeClu`, `writeMsf` (Model/IO/Write.lean; tied to `kalign_write_msa` by the ops `write`,
`write_read`, `gcg`).  `emit ls` is the text whose lines are `ls` (each followed by `'\n'`).

* `fasta_shape`   FASTA: per record the header line `>name`, then the row cut into lines that are exactly 60 wide except
                  the last one, which is 1..60 wide;
* `blocks_shape_clu`, `blocks_shape_msf`, `block_columns`   Clustal / MSF: header, then `max 1 ⌈alnlen/60⌉` blocks,
                  every block listing every sequence in input order with at most 60 columns, the columns of all blocks
                  concatenating to the row;
* `msf_len`, `msf_checksums`, `msf_type`, `gcg_spec`   the MSF header declares the true alignment length, the true
                  per-row GCG checksums (and their sum mod 10000) and the molecule type.
The layout theorems rest on `sortLines_layout` (Lemmas/IO/Sort.lean): sorting the line buffer by `(block, seq_id)`
interleaves the rows block by block.
-/
namespace Kalign.IO
open List

/-- squid's GCG checksum: Σ_{k < len} (k mod 57 + 1) · toupper(seq[k]) mod 10000 -/
theorem gcg_spec (seq : Bytes) (len : Nat) :
    gcgChecksum seq len =
      ((List.range (seq.take len).length).map fun k => (k % 57 + 1) * (toUpper (seq.take len)[k]!).toNat).sum % 10000 := by
  rw [gcgChecksum_eq, gcgSum_eq_sum]
  simp

theorem fasta_shape (A : Alignment) :
    writeFasta A = emit (A.rows.flatMap fun r => (62 :: r.name) :: faChunks A.alnlen r) ∧
    ∀ r ∈ A.rows,
      (faChunks A.alnlen r).flatten = r.row.take A.alnlen ∧
      (∀ c ∈ (faChunks A.alnlen r).dropLast, c.length = 60) ∧
      (∀ c ∈ faChunks A.alnlen r, 1 ≤ c.length ∧ c.length ≤ 60) := by
  refine ⟨writeFasta_eq_emit A, ?_⟩
  intro r _
  refine ⟨faChunks_flatten _ _, ?_, ?_⟩
  · unfold faChunks; split
    · simp
    · exact blocks_dropLast _
  · intro c hc
    unfold faChunks at hc
    split at hc
    · simp at hc
    · rename_i h
      exact ⟨blocks_pos _ (by simpa using h) c hc, blocks_length_le _ c hc⟩

/-- Clustal: title line, empty line, then `numBlocks alnlen` blocks; `blockText A b` lists every sequence in order -/
theorem blocks_shape_clu (ver : Bytes) (A : Alignment) (hb : A.InBounds) :
    writeClu ver A =
      emit ([ascii "Kalign (" ++ ver ++ ascii ") multiple sequence alignment", []] ++
        (List.range (numBlocks A.alnlen)).flatMap (blockText A)) := by
  rw [writeClu_eq ver A hb, majorLines_eq_blockText A hb]

/-- MSF: the header lines, then the same blocks -/
theorem blocks_shape_msf (date : Bytes) (A : Alignment) (hb : A.InBounds) :
    writeMsf date A =
      emit ([msfMagic A, [], msfInfoLine date A, []] ++ A.rows.map (msfNameLine (maxNameLen A) A.alnlen) ++
        [[], ascii "//", []] ++ (List.range (numBlocks A.alnlen)).flatMap (blockText A)) := by
  rw [writeMsf_eq date A hb, majorLines_eq_blockText A hb]
  rfl

/-- the number of blocks, the width of a block, and nothing lost: the block columns concatenate to the row -/
theorem block_columns (A : Alignment) (r : Row) (hr : r ∈ A.rows) (hb : A.InBounds) :
    numBlocks A.alnlen = max 1 ((A.alnlen + 59) / 60) ∧
    (∀ b, (chunkOf (r.row.take A.alnlen) b).length ≤ 60) ∧
    ((List.range (numBlocks A.alnlen)).map (chunkOf (r.row.take A.alnlen))).flatten = r.row.take A.alnlen := by
  refine ⟨rfl, fun b => chunkOf_length_le _ b, ?_⟩
  have := chunkOf_flatten (r.row.take A.alnlen)
  rwa [length_take, Nat.min_eq_left (hb r hr)] at this

/-- rows of a finalised well-formed alignment all have the declared width -/
theorem finalise_rows_length (S : List SeqRec) (wf : AlnWF S) (bio L : Nat) (base : Bytes) :
    ∀ r ∈ (finalise S bio L base).rows, r.row.length = (finalise S bio L base).alnlen := by
  intro r hr
  simp only [finalise, mem_map] at hr
  obtain ⟨s, hs, rfl⟩ := hr
  simp only [finalise]
  rw [linRow_length _ _ (wf.gaps s hs), wf.width s hs]

theorem finalise_inBounds (S : List SeqRec) (wf : AlnWF S) (bio L : Nat) (base : Bytes) :
    (finalise S bio L base).InBounds := by
  intro r hr
  rw [finalise_rows_length S wf bio L base r hr]
  exact Nat.le_refl _

/-- the MSF header declares the true alignment length: in the `MSF:` field and in the `Len:` field of every `Name:` line -/
theorem msf_len (S : List SeqRec) (wf : AlnWF S) (bio L : Nat) (base date : Bytes) :
    let A := finalise S bio L base
    (∀ r ∈ A.rows, r.row.length = A.alnlen) ∧
    (∃ rest, msfInfoLine date A = 32 :: base ++ ascii "  MSF: " ++ decDigits A.alnlen ++ ascii "  Type: " ++ rest) ∧
    (∀ r ∈ A.rows, ∃ pre post, msfNameLine (maxNameLen A) A.alnlen r =
        pre ++ ascii "  Len:  " ++ padLeft 5 (decDigits A.alnlen) ++ ascii "  Check: " ++ post) ∧
    decValue (decDigits A.alnlen) = A.alnlen := by
  intro A
  refine ⟨finalise_rows_length S wf bio L base,
    ⟨[msfTypeChar A] ++ (ascii "  " ++ (date ++ (ascii "  Check: " ++ (decDigits (gcgMult A) ++ ascii "  ..")))), ?_⟩,
    ?_, decValue_decDigits _⟩
  · simp only [msfInfoLine, append_assoc, cons_append]
    rfl
  · intro r _
    refine ⟨ascii " Name: " ++ padRight (maxNameLen A) (r.name.take (maxNameLen A)),
      padLeft 4 (decDigits (gcgChecksum r.row A.alnlen)) ++ ascii "  Weight: 1.00", ?_⟩
    simp only [msfNameLine, append_assoc]

/-- the MSF header carries the true checksums: per row `GCGchecksum` of the whole row, and their sum mod 10000 -/
theorem msf_checksums (S : List SeqRec) (wf : AlnWF S) (bio L : Nat) (base date : Bytes) :
    let A := finalise S bio L base
    (∀ r ∈ A.rows, ∃ pre, msfNameLine (maxNameLen A) A.alnlen r =
        pre ++ ascii "  Check: " ++ padLeft 4 (decDigits (gcgSum 0 r.row % 10000)) ++ ascii "  Weight: 1.00") ∧
    (∃ pre, msfInfoLine date A =
        pre ++ ascii "  Check: " ++ decDigits ((A.rows.map fun r => gcgSum 0 r.row % 10000).sum % 10000) ++ ascii "  ..") := by
  intro A
  have hlen := finalise_rows_length S wf bio L base
  have hchk : ∀ r ∈ A.rows, gcgChecksum r.row A.alnlen = gcgSum 0 r.row % 10000 := by
    intro r hr
    rw [gcgChecksum_eq, ← hlen r hr, take_length]
  constructor
  · intro r hr
    refine ⟨ascii " Name: " ++ padRight (maxNameLen A) (r.name.take (maxNameLen A)) ++ ascii "  Len:  " ++
      padLeft 5 (decDigits A.alnlen), ?_⟩
    rw [← hchk r hr]
    simp only [msfNameLine, append_assoc]
  · refine ⟨32 :: A.basename ++ ascii "  MSF: " ++ decDigits A.alnlen ++ ascii "  Type: " ++ [msfTypeChar A] ++ ascii "  " ++
      date, ?_⟩
    have : (A.rows.map fun r => gcgSum 0 r.row % 10000) = A.rows.map fun r => gcgChecksum r.row A.alnlen :=
      map_congr_left (fun r hr => (hchk r hr).symm)
    rw [this, ← gcgMult_eq]
    simp only [msfInfoLine, append_assoc]

/-- molecule type: protein input gets `!!AA_MULTIPLE_ALIGNMENT` and `Type: P`, nucleotide input (whose internal alphabet
is not the reduced protein alphabet) gets `!!NA_MULTIPLE_ALIGNMENT` and `Type: N` -/
theorem msf_type (A : Alignment) :
    (A.biotype = 0 → msfMagic A = ascii "!!AA_MULTIPLE_ALIGNMENT 1.0" ∧ msfTypeChar A = 80) ∧
    (A.biotype = 1 → A.L ≠ 13 → msfMagic A = ascii "!!NA_MULTIPLE_ALIGNMENT 1.0" ∧ msfTypeChar A = 78) := by
  constructor
  · intro h; simp [msfMagic, msfTypeChar, h]
  · intro h hL; simp [msfMagic, msfTypeChar, h, hL]

/-- non-vacuity: a concrete well-formed alignment (2 rows, width 5, a gap in each row) -/
example : AlnWF [⟨ascii "s1", ascii "ACGT", [0, 0, 1, 0, 0]⟩, ⟨ascii "a|b", ascii "ACGT", [0, 0, 0, 0, 1]⟩] := by decide

end Kalign.IO
