import KalignModel.Lemmas.NoFaultRecC
import KalignModel.Props.C05Pipeline
/-!
# C05 (pipeline) over an arbitrary score carrier

The port of `core_cases`, `stagesG_cases`, `kalignRun_cases` (Props/C05Pipeline.lean) to the carrier-generic pipeline of
`Model/PipelineSoft.lean` (`coreC`, `stagesC`, `kalignRunWithC`): for every score carrier `α` and every parameter function `pm`

* the recursion budgets suffice (no `.fuel`), outright;
* no `.tree` under `UpgmaHyp` / `PipelineUpgmaHyp` (the guide tree is computed on `Float32` whatever the DP carrier is);
* no `.fault`, no `.monitor` under the monitor hypothesis on the carrier: `MonHypC` (unprimed theorems), or the weaker
  `MonHypInvC` — the monitor only for operands satisfying the node invariant `NodeInvC` (primed theorems).

The carrier-independent parts (`buildTasks_cases`, `tree_is_node`, `label_node`, `canon_nonempty`, `treeCodes`, `alnCodes`,
`PipelineUpgmaHyp`, …) are those of the `Float32` development.
-/
namespace Kalign.Pipeline
open Kalign Kalign.Kmeans Kalign.Sched

variable {α : Type} [Score α]

omit [Score α] in
theorem find_membersC (N : NodeC α) (l : List Nat) (h : HasMembersC N l) (i : Nat) (hi : i ∈ l) :
    ∃ g, finalGaps N.group i = some g := by
  obtain ⟨m, hm, hidx⟩ := h i hi
  unfold finalGaps
  cases hf : N.group.find? (·.idx = i) with
  | none =>
    rw [List.find?_eq_none] at hf
    exact absurd (by simpa using hidx) (hf m hm)
  | some m' => exact ⟨_, rfl⟩


/-- the three facts about `coreC`; `c1` = codes in the tree alphabet, `c2` = codes in the alignment alphabet -/
theorem coreC_cases' (avx : Bool) (pm : Option (AlnParam α)) (c1 c2 : List (List Nat))
    (hlen : c1.length = c2.length) (h13 : ∀ s ∈ c1, ∀ c ∈ s, c < 13)
    (h23 : ∀ s ∈ c2, s ≠ [] ∧ ∀ c ∈ s, c < 23) :
    coreC avx pm c1 c2 ≠ .error .fuel ∧
    (UpgmaHyp c1.toArray → coreC avx pm c1 c2 ≠ .error .tree) ∧
    ((∀ ap, pm = some ap → MonHypInvC ap c2.toArray) →
      coreC avx pm c1 c2 ≠ .error .fault ∧ coreC avx pm c1 c2 ≠ .error .monitor) := by
  unfold coreC
  simp only
  by_cases hn : c2.length < 2
  · simp [hn]
  rw [if_neg hn]
  have hsz1 : c1.toArray.size = c2.length := by simp [hlen]
  rcases buildTasks_cases avx c1.toArray (by rw [hsz1]; omega) (by simpa using h13) with ⟨T, hT, hleaves⟩ | ⟨hE, hnU⟩
  · rw [hT]
    simp only
    rw [hsz1] at hleaves ⊢
    cases pm with
    | none => simp
    | some ap =>
      simp only
      obtain ⟨l, r, hlr⟩ := tree_is_node T c2.length (by omega) hleaves
      obtain ⟨L, R, hroot⟩ := label_node l r c2.length
      rw [← hlr] at hroot
      have hsize : (Kmeans.sortTasks (treeTasks T c2.length)).toArray.size = Kmeans.Tree.nint T := by
        simp [length_sortTasks]
      have hpos : 1 ≤ Kmeans.Tree.nint T := by rw [hlr]; simp [Kmeans.Tree.nint]
      have hcsz : c2.toArray.size = c2.length := by simp
      have hchild : recAlnC ap (Kmeans.sortTasks (treeTasks T c2.length)).toArray c2.toArray c2.length
          (Kmeans.sortTasks (treeTasks T c2.length)).toArray.size
          ((Kmeans.sortTasks (treeTasks T c2.length)).toArray.size - 1) =
          childOfC ap (Kmeans.sortTasks (treeTasks T c2.toArray.size)).toArray c2.toArray c2.toArray.size
            (Kmeans.Tree.nint T) (label T c2.toArray.size).id := by
        rw [hcsz, hroot, hsize]
        show _ = childOfC _ _ _ _ _ (c2.length + Kmeans.Tree.nint T - 1)
        unfold childOfC
        rw [if_pos (by omega)]
        congr 1
        omega
      rw [hchild]
      have hleaves' : ∀ i ∈ T.leaves, i < c2.toArray.size := by
        intro i hi; rw [hcsz]; exact (hleaves i).1 hi
      have hnint : Kmeans.LTree.nint (label T c2.toArray.size) ≤ Kmeans.Tree.nint T := by
        unfold label; rw [(labelFrom_iids T c2.toArray.size).2.2]; exact Nat.le_refl _
      have hnofuel := recAlnC_tree_no_fuel ap T c2.toArray hleaves' _ (.refl _) (Kmeans.Tree.nint T) hnint
      refine ⟨?_, ?_, ?_⟩
      · cases hc : childOfC ap (Kmeans.sortTasks (treeTasks T c2.toArray.size)).toArray c2.toArray c2.toArray.size
            (Kmeans.Tree.nint T) (label T c2.toArray.size).id with
        | error e =>
          simp only
          intro h
          simp only [Except.error.injEq] at h
          exact hnofuel (by rw [hc, h])
        | ok root =>
          simp only
          split <;> simp
      · intro _
        cases hc : childOfC ap (Kmeans.sortTasks (treeTasks T c2.toArray.size)).toArray c2.toArray c2.toArray.size
            (Kmeans.Tree.nint T) (label T c2.toArray.size).id with
        | error e =>
          simp only
          intro h
          simp only [Except.error.injEq] at h
          subst h
          -- `.tree` is never produced by `recAlnC`
          have : ∀ (fuel k : Nat), recAlnC ap (Kmeans.sortTasks (treeTasks T c2.toArray.size)).toArray c2.toArray
              c2.toArray.size fuel k ≠ .error .tree := by
            intro fuel
            induction fuel with
            | zero => intro k; simp [recAlnC]
            | succ fuel ih =>
              intro k
              rw [recAlnC]
              split
              · simp
              · rename_i a b c _
                have hch : ∀ x, (if x ≥ c2.toArray.size then
                    recAlnC ap (Kmeans.sortTasks (treeTasks T c2.toArray.size)).toArray c2.toArray c2.toArray.size fuel
                      (x - c2.toArray.size)
                    else if x < c2.toArray.size then Except.ok (leafNodeC c2.toArray x) else Except.error PipeErr.fault) ≠
                    .error .tree := by
                  intro x
                  split
                  · exact ih _
                  · split <;> simp
                simp only
                split
                · rename_i e he
                  intro h
                  simp only [Except.error.injEq] at h
                  subst h
                  exact hch a he
                · split
                  · rename_i e he
                    intro h
                    simp only [Except.error.injEq] at h
                    subst h
                    exact hch b he
                  · unfold mergeNodesC
                    simp only
                    split
                    · simp
                    · split
                      · simp
                      · split <;> simp
          unfold childOfC at hc
          split at hc
          · exact this _ _ hc
          · split at hc <;> simp at hc
        | ok root =>
          simp only
          split <;> simp
      · intro hM
        have hne : ∀ i, i < c2.toArray.size → c2.toArray.getD i [] ≠ [] ∧ ∀ c ∈ c2.toArray.getD i [], c < 23 := by
          intro i hi
          rw [hcsz] at hi
          have : c2.toArray.getD i [] = c2[i] := by simp [Array.getD, hi]
          rw [this]
          exact h23 _ (List.getElem_mem hi)
        obtain ⟨N, hN, hmem, _⟩ := recAlnC_tree' ap T c2.toArray hleaves' hne (hM ap rfl) _ (.refl _)
          (Kmeans.Tree.nint T) hnint
        rw [hN]
        simp only
        have hall : ∀ i ∈ List.range c2.length, ∃ g, finalGaps N.group i = some g ∧ True := by
          intro i hi
          have hi' : i ∈ (label T c2.toArray.size).leaves := by
            unfold label
            rw [(labelFrom_spec T c2.toArray.size).2.1]
            exact (hleaves i).2 (List.mem_range.1 hi)
          obtain ⟨g, hg⟩ := find_membersC N _ hmem i hi'
          exact ⟨g, hg, trivial⟩
        obtain ⟨gs, hgs, _⟩ := mapM_option_spec (finalGaps N.group) (fun _ => True) (List.range c2.length) hall
        rw [hgs]
        simp
  · rw [hE]
    simp only
    refine ⟨by simp, fun hU => absurd hU hnU, fun _ => ⟨by simp, by simp⟩⟩


theorem stagesC_cases' (avx : Bool) (bio : Bio) (pm : Bio → Option (AlnParam α)) (V : List (Name × List Char))
    (hV : ∀ x ∈ V, x.2 ≠ []) :
    stagesC avx bio pm V ≠ .error .fuel ∧
    (UpgmaHyp ((V.map fun x => bytesOf x.2).map (convertN (treeAlphabet bio))).toArray →
      stagesC avx bio pm V ≠ .error .tree) ∧
    ((∀ ap, pm bio = some ap →
        MonHypInvC ap ((V.map fun x => bytesOf x.2).map (convertN (alnAlphabet bio))).toArray) →
      stagesC avx bio pm V ≠ .error .fault ∧ stagesC avx bio pm V ≠ .error .monitor) := by
  have hcore := coreC_cases' avx (pm bio) ((V.map fun x => bytesOf x.2).map (convertN (treeAlphabet bio)))
    ((V.map fun x => bytesOf x.2).map (convertN (alnAlphabet bio))) (by simp)
    (by
      intro s hs
      simp only [List.map_map, List.mem_map, Function.comp_apply] at hs
      obtain ⟨x, _, rfl⟩ := hs
      intro c hc
      rcases treeAlphabet_cases bio with h | h
      · have := convertN_lt 5 (Or.inl rfl) (bytesOf x.2) c (by rw [← h]; exact hc); omega
      · exact convertN_lt 13 (Or.inr (Or.inl rfl)) (bytesOf x.2) c (by rw [← h]; exact hc))
    (by
      intro s hs
      simp only [List.map_map, List.mem_map, Function.comp_apply] at hs
      obtain ⟨x, hx, rfl⟩ := hs
      refine ⟨?_, ?_⟩
      · intro h0
        have := congrArg List.length h0
        rw [length_convertN] at this
        simp only [bytesOf, List.length_map, List.length_nil] at this
        exact hV x hx (List.length_eq_zero_iff.1 this)
      · intro c hc
        rcases alnAlphabet_cases bio with h | h
        · have := convertN_lt 5 (Or.inl rfl) (bytesOf x.2) c (by rw [← h]; exact hc); omega
        · exact convertN_lt 23 (Or.inr (Or.inr rfl)) (bytesOf x.2) c (by rw [← h]; exact hc))
  obtain ⟨c1, c2, c3⟩ := hcore
  unfold stagesC
  cases bio with
  | unknown => exact ⟨by simp, fun _ => by simp, fun _ => ⟨by simp, by simp⟩⟩
  | protein =>
    simp only
    cases hc : coreC avx (pm Bio.protein)
        (List.map (convertN (treeAlphabet Bio.protein)) (List.map (fun x => bytesOf x.2) V))
        (List.map (convertN (alnAlphabet Bio.protein)) (List.map (fun x => bytesOf x.2) V)) with
    | ok g => exact ⟨by simp, fun _ => by simp, fun _ => ⟨by simp, by simp⟩⟩
    | error e =>
      rw [hc] at c1 c2 c3
      simp only [ne_eq, Except.error.injEq] at c1 c2 c3 ⊢
      exact ⟨c1, c2, c3⟩
  | dna =>
    simp only
    cases hc : coreC avx (pm Bio.dna)
        (List.map (convertN (treeAlphabet Bio.dna)) (List.map (fun x => bytesOf x.2) V))
        (List.map (convertN (alnAlphabet Bio.dna)) (List.map (fun x => bytesOf x.2) V)) with
    | ok g => exact ⟨by simp, fun _ => by simp, fun _ => ⟨by simp, by simp⟩⟩
    | error e =>
      rw [hc] at c1 c2 c3
      simp only [ne_eq, Except.error.injEq] at c1 c2 c3 ⊢
      exact ⟨c1, c2, c3⟩

theorem kalignRunWithC_cases' (pm : Bio → Option (AlnParam α)) (inp : List InSeq) :
    kalignRunWithC detectF true pm inp ≠ .error .fuel ∧
    (PipelineUpgmaHyp inp → kalignRunWithC detectF true pm inp ≠ .error .tree) ∧
    ((∀ c ap, canon inp = some c → pm (bioOf detectF inp) = some ap →
        MonHypInvC ap (alnCodes (bioOf detectF inp) c)) →
      kalignRunWithC detectF true pm inp ≠ .error .fault ∧ kalignRunWithC detectF true pm inp ≠ .error .monitor) := by
  unfold kalignRunWithC
  by_cases hb : hasBadByte inp = true
  · simp [hb]
  simp only [hb, Bool.false_eq_true, if_false]
  cases hc : canon inp with
  | none => simp
  | some c =>
    simp only
    obtain ⟨s1, s2, s3⟩ := stagesC_cases' true (bioOf detectF inp) pm (view c) (canon_nonempty inp c hc)
    cases hs : stagesC true (bioOf detectF inp) pm (view c) with
    | ok rows => simp
    | error e =>
      rw [hs] at s1 s2 s3
      simp only [ne_eq, Except.error.injEq] at s1 s2 s3 ⊢
      exact ⟨s1, fun hU => s2 (hU c hc), fun hM => s3 (fun ap hp => hM c ap rfl hp)⟩

/-! ## the same under `MonHypC` (the exact analogues of `core_cases`, `stagesG_cases`, `kalignRun_cases`) -/

theorem coreC_cases (avx : Bool) (pm : Option (AlnParam α)) (c1 c2 : List (List Nat))
    (hlen : c1.length = c2.length) (h13 : ∀ s ∈ c1, ∀ c ∈ s, c < 13)
    (h23 : ∀ s ∈ c2, s ≠ [] ∧ ∀ c ∈ s, c < 23) :
    coreC avx pm c1 c2 ≠ .error .fuel ∧
    (UpgmaHyp c1.toArray → coreC avx pm c1 c2 ≠ .error .tree) ∧
    ((∀ ap, pm = some ap → MonHypC ap c2.toArray) →
      coreC avx pm c1 c2 ≠ .error .fault ∧ coreC avx pm c1 c2 ≠ .error .monitor) :=
  have h := coreC_cases' avx pm c1 c2 hlen h13 h23
  ⟨h.1, h.2.1, fun hM => h.2.2 fun ap hp => (hM ap hp).toInv⟩

theorem stagesC_cases (avx : Bool) (bio : Bio) (pm : Bio → Option (AlnParam α)) (V : List (Name × List Char))
    (hV : ∀ x ∈ V, x.2 ≠ []) :
    stagesC avx bio pm V ≠ .error .fuel ∧
    (UpgmaHyp ((V.map fun x => bytesOf x.2).map (convertN (treeAlphabet bio))).toArray →
      stagesC avx bio pm V ≠ .error .tree) ∧
    ((∀ ap, pm bio = some ap →
        MonHypC ap ((V.map fun x => bytesOf x.2).map (convertN (alnAlphabet bio))).toArray) →
      stagesC avx bio pm V ≠ .error .fault ∧ stagesC avx bio pm V ≠ .error .monitor) :=
  have h := stagesC_cases' avx bio pm V hV
  ⟨h.1, h.2.1, fun hM => h.2.2 fun ap hp => (hM ap hp).toInv⟩

theorem kalignRunWithC_cases (pm : Bio → Option (AlnParam α)) (inp : List InSeq) :
    kalignRunWithC detectF true pm inp ≠ .error .fuel ∧
    (PipelineUpgmaHyp inp → kalignRunWithC detectF true pm inp ≠ .error .tree) ∧
    ((∀ c ap, canon inp = some c → pm (bioOf detectF inp) = some ap → MonHypC ap (alnCodes (bioOf detectF inp) c)) →
      kalignRunWithC detectF true pm inp ≠ .error .fault ∧ kalignRunWithC detectF true pm inp ≠ .error .monitor) :=
  have h := kalignRunWithC_cases' pm inp
  ⟨h.1, h.2.1, fun hM => h.2.2 fun c ap hc hp => (hM c ap hc hp).toInv⟩

end Kalign.Pipeline
