import KalignModel.Lemmas.HirschOpt6
import KalignModel.Lemmas.ScoreRuns
import KalignModel.Props.C07
/-!
# C07 (scores) — what the sequence–sequence kernels and the meetup compute

All statements are on the exact carrier `ExactScore = Option Int` (`none` = −∞, integers = scores × 2000) with
finite parameters (`ApOK ap gpo gpe tgpe s`).

* **S1** `C07_ssForward_spec`, `C07_ssBackward_spec`: every cell of the list a kernel returns is the maximum, over the
  partial column lists that consume exactly the rows of the rectangle and the columns up to that cell and end in that
  state, of the reading `readF` / `readB` — a recursive function on column lists that charges what the kernel charges
  (`stepF` in `Lemmas/KernelSpec.lean`).  "Maximum" = (i) upper bound and (ii) −∞ or attained.
* **S2** `C07_ssMeet_eq`, `C07_ssMeet_sound`, `C07_ssMeet_attained`, `C07_cut_exists`, `C07_ssMeet_dominates_complete`:
  the meetup returns the first maximum of `f[i] + b[i] − join(t,i) − tie(i)` over the admissible `(i,t)`; every complete
  column list of the rectangle has an admissible cut, so the returned score dominates the level's reading of every
  complete column list, and is attained by one (`C07_ssMeet_first`: first maximum in scan order).
* **S3** `C07_level_bounds`, `C07_sub_level_bounds`: every level's reading of a complete alignment (with its context)
  lies in `[scoreST − gpo·nterm − slackLo, scoreST + slackHi]`, `slackLo = max(0, tgpe−gpe, tgpe−gpo)`,
  `slackHi = max(0, gpe−tgpe)`.  `C07_claimed_lower_bound_fails`: the lower slack `max(0, tgpe−gpe)` assumed so far is
  not enough when `tgpe > gpo` (a run of the real kernels).
* **S4** `C07_hirschberg_seqseq_opt` (+ `_abs`, `C07_alnRun_serial_opt`, `C07_alnRun_opt`): an alignment that beats every
  other by the safe margin is exactly what the controller returns (serial entry, and `aln_runner` with its fall-through).
-/
namespace Kalign

/-! ## S1 -/

/-- reading of a partial column list (from the near corner, start kind `k0`) by the forward kernel -/
def readF (gpo gpe tgpe : Int) (s : Nat → Nat → Int) (seq1 seq2 : Array Nat) (r : Rect)
    (start : States ExactScore) (k0 : Kind) (cs : List Col) : Option Int :=
  readAbs (cfgF gpo gpe tgpe s seq1 seq2 r) start k0 cs

/-- reading of a partial column list that ends in the far corner (kind `k0` after it) by the backward kernel:
the forward reading of the reversed list on the reversed problem with the terminal flags exchanged -/
def readB (gpo gpe tgpe : Int) (s : Nat → Nat → Int) (seq1 seq2 : Array Nat) (r : Rect)
    (start : States ExactScore) (k0 : Kind) (cs : List Col) : Option Int :=
  readAbs (cfgB gpo gpe tgpe s seq1 seq2 r) start k0 cs.reverse

theorem C07_ssForward_spec (ap : AlnParam ExactScore) (gpo gpe tgpe : Int) (s : Nat → Nat → Int)
    (h : ApOK ap gpo gpe tgpe s) (seq1 seq2 : Array Nat) (r : Rect) (hb : r.startb < r.endb)
    (start : States ExactScore) (j : Nat) (hj1 : r.startb ≤ j) (hj2 : j ≤ r.endb) :
    ∃ cell, (ssForward ap seq1 seq2 r start)[j - r.startb]? = some cell ∧
      (∀ k0 cs, consA cs = r.enda - r.starta → consB cs = j - r.startb →
        ole (readF gpo gpe tgpe s seq1 seq2 r start k0 cs) (cell.get (lastKind k0 cs))) ∧
      (∀ st, cell.get st = none ∨ ∃ k0 cs, consA cs = r.enda - r.starta ∧ consB cs = j - r.startb ∧
        lastKind k0 cs = st ∧ readF gpo gpe tgpe s seq1 seq2 r start k0 cs = cell.get st) := by
  have hn : 1 ≤ (cfgF gpo gpe tgpe s seq1 seq2 r).n := by simp only [cfgF]; omega
  refine ⟨absTab (cfgF gpo gpe tgpe s seq1 seq2 r) start (r.enda - r.starta) (j - r.startb), ?_, ?_, ?_⟩
  · rw [ssForward_eq_absTab ap gpo gpe tgpe s h seq1 seq2 r hb start]
    rw [List.getElem?_map, List.getElem?_range (by omega)]
    rfl
  · intro k0 cs hA hB
    have := abs_sound (cfgF gpo gpe tgpe s seq1 seq2 r) hn start k0 cs
    rw [runF_p, runF_k, runF_st] at this
    simpa [initP, hA, hB, readF] using this
  · intro st
    rcases abs_attained (cfgF gpo gpe tgpe s seq1 seq2 r) hn start (r.enda - r.starta) (j - r.startb)
      (by simp only [cfgF]; omega) st with h1 | ⟨k0, cs, h1⟩
    · exact Or.inl h1
    · right
      have hp := congrArg PSt.p h1
      have hk := congrArg PSt.k h1
      have hs := congrArg PSt.st h1
      have hv := congrArg PSt.v h1
      rw [runF_p] at hp; rw [runF_k] at hk; rw [runF_st] at hs
      exact ⟨k0, cs, by simpa [initP] using hp, by simpa [initP] using hk, by simpa [initP] using hs, hv⟩

theorem C07_ssBackward_spec (ap : AlnParam ExactScore) (gpo gpe tgpe : Int) (s : Nat → Nat → Int)
    (h : ApOK ap gpo gpe tgpe s) (seq1 seq2 : Array Nat) (r : Rect) (hb : r.startb < r.endb)
    (ha : r.starta ≤ r.enda) (start : States ExactScore) (j : Nat) (hj1 : r.startb ≤ j) (hj2 : j ≤ r.endb) :
    ∃ cell, (ssBackward ap seq1 seq2 r start)[j - r.startb]? = some cell ∧
      (∀ k0 cs, consA cs = r.enda - r.starta → consB cs = r.endb - j →
        ole (readB gpo gpe tgpe s seq1 seq2 r start k0 cs) (cell.get (lastKind k0 cs.reverse))) ∧
      (∀ st, cell.get st = none ∨ ∃ k0 cs, consA cs = r.enda - r.starta ∧ consB cs = r.endb - j ∧
        lastKind k0 cs.reverse = st ∧ readB gpo gpe tgpe s seq1 seq2 r start k0 cs = cell.get st) := by
  have hn : 1 ≤ (cfgB gpo gpe tgpe s seq1 seq2 r).n := by simp only [cfgB]; omega
  refine ⟨absTab (cfgB gpo gpe tgpe s seq1 seq2 r) start (r.enda - r.starta) (r.endb - j), ?_, ?_, ?_⟩
  · rw [ssBackward_eq_absTab ap gpo gpe tgpe s h seq1 seq2 r hb ha start, map_range_reverse]
    rw [List.getElem?_map, List.getElem?_range (by omega)]
    simp only [Option.map_some]
    congr 2
    omega
  · intro k0 cs hA hB
    have := abs_sound (cfgB gpo gpe tgpe s seq1 seq2 r) hn start k0 cs.reverse
    rw [runF_p, runF_k, runF_st] at this
    simpa [initP, hA, hB, readB, consA_reverse, consB_reverse] using this
  · intro st
    rcases abs_attained (cfgB gpo gpe tgpe s seq1 seq2 r) hn start (r.enda - r.starta) (r.endb - j)
      (by simp only [cfgB]; omega) st with h1 | ⟨k0, cs, h1⟩
    · exact Or.inl h1
    · right
      have hp := congrArg PSt.p h1
      have hk := congrArg PSt.k h1
      have hs := congrArg PSt.st h1
      have hv := congrArg PSt.v h1
      rw [runF_p] at hp; rw [runF_k] at hk; rw [runF_st] at hs
      refine ⟨k0, cs.reverse, by simpa [initP, consA_reverse] using hp, by simpa [initP, consB_reverse] using hk,
        by simpa [initP] using hs, ?_⟩
      simpa [readB, readAbs] using hv

/-! ## S2 -/

/-- forward, backward and meetup of the real kernels on the rectangle `(sa..ea) × (sb..eb)` with middle row `mid` -/
theorem C07_ssMeet_eq (ap : AlnParam ExactScore) (gpo gpe tgpe : Int) (s : Nat → Nat → Int)
    (h : ApOK ap gpo gpe tgpe s) (seq1 seq2 : Array Nat) (sa mid ea sb eb lenB : Nat)
    (hb : sb < eb) (ha : mid ≤ ea) (startF startB : States ExactScore) :
    let rF : Rect := ⟨sa, mid, sb, eb, lenB⟩
    let rB : Rect := ⟨mid, ea, sb, eb, lenB⟩
    kMeetup ap (.seqseq seq1 seq2) rF mid (kForward ap (.seqseq seq1 seq2) rF startF)
        (kBackward ap (.seqseq seq1 seq2) rB startB) =
      absMeet (cfgF gpo gpe tgpe s seq1 seq2 rF) (cfgB gpo gpe tgpe s seq1 seq2 rB) (mid - sa) (ea - mid)
        startF startB sb eb :=
  ssMeet_eq ap gpo gpe tgpe s h seq1 seq2 sa mid ea sb eb lenB hb ha startF startB

/-- the returned score dominates the value `f + b − join(t,k) − tie(k)` of every admissible cut of every pair of
partial column lists (`X2r` = the second part reversed) -/
theorem C07_ssMeet_sound (cF cB : KCfg) (hn : 1 ≤ cF.n) (hnn : cB.n = cF.n) (m1 m2 : Nat)
    (startF startB : States ExactScore) (sb eb : Nat) (k : Nat) (t : Int) (hadm : Adm cF.n k t)
    (k0F k0B : Kind) (X1 X2r : List Col) (v1 v2 : Option Int)
    (h1 : runF cF (initP startF k0F) X1 = ⟨m1, k, fkOf t, v1⟩)
    (h2 : runF cB (initP startB k0B) X2r = ⟨m2, cF.n - k, bkOf t, v2⟩) :
    ole (meetVal cF sb eb t k v1 v2) (absMeet cF cB m1 m2 startF startB sb eb).score :=
  absMeet_sound cF cB hn hnn m1 m2 startF startB sb eb k t hadm k0F k0B X1 X2r v1 v2 h1 h2

theorem C07_ssMeet_attained (cF cB : KCfg) (hn : 1 ≤ cF.n) (hnn : cB.n = cF.n) (m1 m2 : Nat)
    (startF startB : States ExactScore) (sb eb : Nat)
    (hfin : (absMeet cF cB m1 m2 startF startB sb eb).score ≠ none) :
    ∃ k t, Adm cF.n k t ∧ (absMeet cF cB m1 m2 startF startB sb eb).meet = ((sb + k : Nat) : Int) ∧
      (absMeet cF cB m1 m2 startF startB sb eb).transition = t ∧
      ∃ k0F k0B X1 X2r v1 v2,
        runF cF (initP startF k0F) X1 = ⟨m1, k, fkOf t, some v1⟩ ∧
        runF cB (initP startB k0B) X2r = ⟨m2, cF.n - k, bkOf t, some v2⟩ ∧
        (absMeet cF cB m1 m2 startF startB sb eb).score = meetVal cF sb eb t k (some v1) (some v2) :=
  absMeet_attained cF cB hn hnn m1 m2 startF startB sb eb hfin

/-- the returned `(meet, transition)` is the **first maximum in the scan order of the code** (columns ascending, within a
column the transitions 1, 2, 3, 5, 6, 7) of `f[i] + b[i] − join(t,i) − tie(i)` over the admissible `(i, t)` -/
theorem C07_ssMeet_first (cF cB : KCfg) (m1 m2 : Nat) (startF startB : States ExactScore) (sb eb : Nat)
    (hfin : (absMeet cF cB m1 m2 startF startB sb eb).score ≠ none) :
    ∃ k t, Adm cF.n k t ∧ (absMeet cF cB m1 m2 startF startB sb eb).meet = ((sb + k : Nat) : Int) ∧
      (absMeet cF cB m1 m2 startF startB sb eb).transition = t ∧
      (absMeet cF cB m1 m2 startF startB sb eb).score =
        meetVal cF sb eb t k ((absTab cF startF m1 k).get (fkOf t)) ((absTab cB startB m2 (cB.n - k)).get (bkOf t)) ∧
      (∀ k' t', Adm cF.n k' t' → (k' < k ∨ (k' = k ∧ t' < t)) →
        ¬ ole (absMeet cF cB m1 m2 startF startB sb eb).score
          (meetVal cF sb eb t' k' ((absTab cF startF m1 k').get (fkOf t'))
            ((absTab cB startB m2 (cB.n - k')).get (bkOf t')))) ∧
      (∀ k' t', Adm cF.n k' t' →
        ole (meetVal cF sb eb t' k' ((absTab cF startF m1 k').get (fkOf t'))
            ((absTab cB startB m2 (cB.n - k')).get (bkOf t')))
          (absMeet cF cB m1 m2 startF startB sb eb).score) :=
  absMeet_first cF cB m1 m2 startF startB sb eb hfin

theorem C07_cut_exists (cF cB : KCfg) (hnn : cB.n = cF.n) (fk bk : Kind) (X : List Col) (m1 m2 : Nat) (hm2 : 1 ≤ m2)
    (hadj : adjOK fk X = true) (hcompat : (lastKind fk X).compat bk = true)
    (hA : consA X = m1 + m2) (hB : consB X = cF.n) :
    ∃ X1 X2 t, X = X1 ++ X2 ∧ Adm cF.n (consB X1) t ∧
      walkOK cF 0 0 fk X1 = true ∧ consA X1 = m1 ∧ lastKind fk X1 = fkOf t ∧
      walkOK cB 0 0 bk X2.reverse = true ∧ consA X2 = m2 ∧ consB X1 + consB X2 = cF.n ∧
      lastKind bk X2.reverse = bkOf t :=
  cut_exists cF cB hnn fk bk X m1 m2 hm2 hadj hcompat hA hB

/-- with one-hot start states: **the meetup score dominates the level's reading (minus the tie-break term) of every
complete column list of the rectangle** that respects the boundary kinds -/
theorem C07_ssMeet_dominates_complete (cF cB : KCfg) (hn : 1 ≤ cF.n) (hnn : cB.n = cF.n) (m1 m2 : Nat) (hm2 : 1 ≤ m2)
    (fk bk : Kind) (sb eb : Nat) (X : List Col)
    (hadj : adjOK fk X = true) (hcompat : (lastKind fk X).compat bk = true)
    (hA : consA X = m1 + m2) (hB : consB X = cF.n) :
    ∃ X1 X2 t, X = X1 ++ X2 ∧ Adm cF.n (consB X1) t ∧ consA X1 = m1 ∧
      ole (some (levelRead cF cB fk bk X1 X2 t - tieOf sb eb (consB X1)))
        (absMeet cF cB m1 m2 (hot fk) (hot bk) sb eb).score := by
  obtain ⟨X1, X2, t, hX, hadm, hw1, hA1, hl1, hw2, hA2, hBB, hl2⟩ :=
    cut_exists cF cB hnn fk bk X m1 m2 hm2 hadj hcompat hA hB
  refine ⟨X1, X2, t, hX, hadm, hA1, ?_⟩
  have h1 : runF cF (initP (hot fk) fk) X1 = ⟨m1, consB X1, fkOf t, some (0 + walkSc cF 0 0 fk X1)⟩ := by
    rw [initP, hot_get_self, runF_some, hw1, hA1, hl1]; simp
  have h2 : runF cB (initP (hot bk) bk) X2.reverse =
      ⟨m2, cF.n - consB X1, bkOf t, some (0 + walkSc cB 0 0 bk X2.reverse)⟩ := by
    rw [initP, hot_get_self, runF_some, hw2, consA_reverse, consB_reverse, hA2, hl2]
    simp only [Nat.zero_add, if_true]
    congr 1
    omega
  have := absMeet_sound cF cB hn hnn m1 m2 (hot fk) (hot bk) sb eb (consB X1) t hadm fk bk X1 X2.reverse _ _ h1 h2
  simpa [meetVal, levelRead, Int.add_sub_assoc] using this

/-! ## S3 — every level's reading of a complete alignment lies in an interval around the reference score

**Correction of the claimed interval.**  The claim was
`scoreST X − gpo·nterm X − max(0, tgpe−gpe) ≤ f X ≤ scoreST X + max(0, gpe−tgpe)`.  The upper bound is right.  The lower
bound is *false* in general: when a terminal gap-in-b run crosses the middle row, the forward kernel has charged `tgpe`
for each of its columns above the row, the backward kernel `tgpe` for each below, and the meetup subtracts a further
`tgpe` for the join (`g6`/`g6e`), i.e. `(L+1)·tgpe` for `L` columns.  That deviation is `tgpe`, not `gpo`, so the true lower
slack is `max(0, tgpe−gpe, tgpe−gpo)` (`STW.slackLo`); the two coincide when `tgpe ≤ gpo` (all of kalign's defaults).
`C07_claimed_lower_bound_fails` is a concrete run of the real kernels (gpo = 0, gpe = tgpe = 1.0).
-/

/-- the reference score is the walk of the scoring problem of the two sequences -/
theorem C07_walk_eq_scoreST (gpo gpe tgpe : Int) (s : Nat → Nat → Int) (seq1 seq2 : Array Nat) (cs : List Col) :
    (ssW gpo gpe tgpe s seq1 seq2 seq1.size seq2.size).walk 0 0 .A cs =
      scoreST s gpo gpe tgpe cs seq1.toList seq2.toList := by
  unfold scoreST ssW
  have h1 : seq1.toList.length = seq1.size := by simp
  have h2 : seq2.toList.length = seq2.size := by simp
  have h3 : (fun i j => s (seq1.toList.getD i 0) (seq2.toList.getD j 0)) =
      fun i j => s (seq1.getD i 0) (seq2.getD j 0) := by
    funext i j
    simp [Array.getD_eq_getD_getElem?, List.getD_eq_getElem?_getD]
  rw [h1, h2, h3]

/-- **the reference score is the verbal definition**: substitution scores of the aligned columns minus
`2·gpo + (L−1)·gpe` for every internal gap run of `L` columns and `L·tgpe` for a leading or trailing one
(`scoreSTruns`, by run-length encoding) -/
theorem C07_scoreST_eq_runs (sub : Nat → Nat → Int) (gpo gpe tgpe : Int) (cs : List Col) (a b : List Nat)
    (hV : ValidCols cs a.length b.length) (hadj : adjOK .A cs = true) :
    scoreST sub gpo gpe tgpe cs a b = scoreSTruns sub gpo gpe tgpe cs a b :=
  scoreST_eq_runs sub gpo gpe tgpe cs a b hV hadj

/-- **S3, whole problem**: a complete alignment `Y1 ++ Y2`, cut after `Y1`; forward kernel on `Y1`, backward kernel on
`Y2`, the meetup's charge `J` on the joining edge -/
theorem C07_level_bounds (w : STW) (hgpo : 0 ≤ w.gpo) (hgpe : 0 ≤ w.gpe) (htgpe : 0 ≤ w.tgpe)
    (Y1 Y2 : List Col) (J : Int) (hY2 : Y2 ≠ [])
    (hadj : adjOK .A (Y1 ++ Y2) = true) (hA : consA (Y1 ++ Y2) = w.lenA) (hB : consB (Y1 ++ Y2) = w.lenB)
    (hokF : walkOK w.kcfg 0 0 .A Y1 = true) (hokB : walkOK w.mirror.kcfg 0 0 .A Y2.reverse = true)
    (hrowF : consA Y1 < w.lenA) (hrowB : noGapAAt w.lenA 0 Y2.reverse = true)
    (hJ : w.JoinOK (lastKind .A Y1) (firstKind .A Y2) (consA Y1) (consB Y1) J) :
    w.walk 0 0 .A (Y1 ++ Y2) - w.gpo * (nterm (Y1 ++ Y2) : Int) - w.slackLo ≤ w.levelRead Y1 Y2 J ∧
      w.levelRead Y1 Y2 J ≤ w.walk 0 0 .A (Y1 ++ Y2) + w.slackHi :=
  STW.level_bounds w hgpo hgpe htgpe Y1 Y2 J hY2 hadj hA hB hokF hokB hrowF hrowB hJ

/-- **S3, sub-rectangles**: rectangle `(sa..ea) × (sb..eb)` with middle row `mid`, context `P1` / `P2`, under the
recursion invariant `hInvF` / `hInvB` ("`startb = 0` iff `starta = 0`, or the start kind is gb", and its mirror image).
`C` is a constant of the level. -/
theorem C07_sub_level_bounds (gpo gpe tgpe : Int) (s : Nat → Nat → Int) (seq1 seq2 : Array Nat) (lenA lenB : Nat)
    (hgpo : 0 ≤ gpo) (hgpe : 0 ≤ gpe) (htgpe : 0 ≤ tgpe)
    (sa mid ea sb eb : Nat) (h1 : sa ≤ mid) (h2 : mid < ea) (h3 : ea ≤ lenA) (h4 : sb < eb) (h5 : eb ≤ lenB)
    (P1 X1 X2 P2 : List Col)
    (hadj : adjOK .A (P1 ++ (X1 ++ X2) ++ P2) = true)
    (hA : consA (P1 ++ (X1 ++ X2) ++ P2) = lenA) (hB : consB (P1 ++ (X1 ++ X2) ++ P2) = lenB)
    (hP1a : consA P1 = sa) (hP1b : consB P1 = sb) (hX1a : consA X1 = mid - sa) (hX2a : consA X2 = ea - mid)
    (hXb : consB X1 + consB X2 = eb - sb)
    (hInvF : (sb = 0 ↔ sa = 0) ∨ lastKind .A P1 = .GB)
    (hInvB : (eb = lenB ↔ ea = lenA) ∨ firstKind .A P2 = .GB)
    (t : Int) (hadm : Adm (eb - sb) (consB X1) t)
    (hfk : lastKind (lastKind .A P1) X1 = fkOf t) (hbk : lastKind (firstKind .A P2) X2.reverse = bkOf t)
    (hokF : walkOK (cfgF gpo gpe tgpe s seq1 seq2 ⟨sa, mid, sb, eb, lenB⟩) 0 0 (lastKind .A P1) X1 = true)
    (hokB : walkOK (cfgB gpo gpe tgpe s seq1 seq2 ⟨mid, ea, sb, eb, lenB⟩) 0 0 (firstKind .A P2) X2.reverse = true) :
    let w := ssW gpo gpe tgpe s seq1 seq2 lenA lenB
    let Y := P1 ++ (X1 ++ X2) ++ P2
    let C := walkSc w.kcfg 0 0 .A P1 + walkSc w.mirror.kcfg 0 0 .A P2.reverse
    let R := levelRead (cfgF gpo gpe tgpe s seq1 seq2 ⟨sa, mid, sb, eb, lenB⟩)
      (cfgB gpo gpe tgpe s seq1 seq2 ⟨mid, ea, sb, eb, lenB⟩) (lastKind .A P1) (firstKind .A P2) X1 X2 t
    w.walk 0 0 .A Y - gpo * (nterm Y : Int) - w.slackLo ≤ R + C ∧ R + C ≤ w.walk 0 0 .A Y + w.slackHi :=
  sub_level_bounds gpo gpe tgpe s seq1 seq2 lenA lenB hgpo hgpe htgpe sa mid ea sb eb h1 h2 h3 h4 h5 P1 X1 X2 P2
    hadj hA hB hP1a hP1b hX1a hX2a hXb hInvF hInvB t hadm hfk hbk hokF hokB

/-! ### concrete parameters -/

/-- match 5.0, mismatch −4.0 on codes `< 4` (units of 1/2000) -/
def exS (x y : Nat) : Int := if x < 4 ∧ y < 4 then (if x = y then 10000 else -8000) else 0

/-- gpo 0.5, gpe 0.25, tgpe 0.1 -/
def exP2 : AlnParam ExactScore :=
  { subm := (Array.range 4).map fun i => (Array.range 4).map fun j => some (exS i j)
    gpo := some 1000, gpe := some 500, tgpe := some 200 }

/-- gpo 0, gpe 1.0, tgpe 1.0 -/
def exP3 : AlnParam ExactScore :=
  { subm := (Array.range 4).map fun i => (Array.range 4).map fun j => some (exS i j)
    gpo := some 0, gpe := some 2000, tgpe := some 2000 }

theorem exSub_ok (subm : Array (Array ExactScore)) (g1 g2 g3 : ExactScore)
    (h : subm = (Array.range 4).map fun i => (Array.range 4).map fun j => some (exS i j)) (i j : Nat) :
    (⟨subm, g1, g2, g3⟩ : AlnParam ExactScore).sub i j = some (exS i j) := by
  subst h
  unfold AlnParam.sub exS
  by_cases hi : i < 4
  · by_cases hj : j < 4
    · simp [hi, hj, Array.getD]
    · simp [hi, hj, Array.getD]; rfl
  · simp [hi, Array.getD]; rfl

theorem exP2_ok : ApOK exP2 1000 500 200 exS := ⟨rfl, rfl, rfl, exSub_ok _ _ _ _ rfl⟩
theorem exP3_ok : ApOK exP3 0 2000 2000 exS := ⟨rfl, rfl, rfl, exSub_ok _ _ _ _ rfl⟩

/-- **the claimed lower bound fails**: a = (1,2,0), b = (0), gpo = 0, gpe = tgpe = 1.0.  The top level of the real kernels
returns transition 6 at column 0 with score 3999 = 4000 − tie; it is the level's reading of the alignment
`[gapB, gapB, both]` (a leading run of two gap-in-b columns that crosses the middle row 1), whose reference score is
6000 with one terminal run: `6000 − gpo·1 − max(0, tgpe − gpe) = 6000 > 4000`. -/
theorem C07_claimed_lower_bound_fails :
    let r := kMeetup exP3 (.seqseq #[1, 2, 0] #[0]) ⟨0, 1, 0, 1, 1⟩ 1
      (kForward exP3 (.seqseq #[1, 2, 0] #[0]) ⟨0, 1, 0, 1, 1⟩ (hot .A))
      (kBackward exP3 (.seqseq #[1, 2, 0] #[0]) ⟨1, 3, 0, 1, 1⟩ (hot .A))
    (r.meet, r.transition, r.score) = (0, 6, some 3999) ∧
    (ssW 0 2000 2000 exS #[1, 2, 0] #[0] 3 1).levelRead [.gapB] [.gapB, .both] 2000 = 4000 ∧
    scoreST exS 0 2000 2000 [.gapB, .gapB, .both] [1, 2, 0] [0] = 6000 ∧
    nterm [.gapB, .gapB, .both] = 1 ∧
    ¬ (scoreST exS 0 2000 2000 [.gapB, .gapB, .both] [1, 2, 0] [0] - 0 * 1 - max 0 (2000 - 2000) ≤
        (ssW 0 2000 2000 exS #[1, 2, 0] #[0] 3 1).levelRead [.gapB] [.gapB, .both] 2000) := by
  decide +kernel

/-- … while the corrected bound holds for it (`slackLo = max(0, tgpe−gpe, tgpe−gpo) = 2000`) -/
example : (ssW 0 2000 2000 exS #[1, 2, 0] #[0] 3 1).slackLo = 2000 ∧
    scoreST exS 0 2000 2000 [.gapB, .gapB, .both] [1, 2, 0] [0] - 0 * 1 - 2000 ≤
      (ssW 0 2000 2000 exS #[1, 2, 0] #[0] 3 1).levelRead [.gapB] [.gapB, .both] 2000 := by
  decide +kernel

/-! ## S4 — the serial Hirschberg controller returns the robustly optimal alignment -/

/-- **C07 (sequence – sequence, exact carrier).**  Finite non-negative parameters; `P` a valid column list for the two
sequences without a gap-in-a run next to a gap-in-b run; every other such column list `Q` scores lower by the safe
margin

    scoreST P − gpo·nterm P − (max(0, tgpe−gpe, tgpe−gpo) + max(0, gpe−tgpe)) − len_b  >  scoreST Q

(`len_b` bounds the tie-break term of one meetup; the two `max` terms are the corrected slacks of S3; for `tgpe ≤ gpo`
their sum is `|gpe − tgpe|`, see `C07_hirschberg_seqseq_opt_abs`).  Then the serial controller on the real kernels,
started from `init_alnmem` with enough fuel, does not fault and `add_gap_info_to_path_n` of its path is exactly `P`. -/
theorem C07_hirschberg_seqseq_opt (ap : AlnParam ExactScore) (gpo gpe tgpe : Int) (s : Nat → Nat → Int)
    (hap : ApOK ap gpo gpe tgpe s) (hgpo : 0 ≤ gpo) (hgpe : 0 ≤ gpe) (htgpe : 0 ≤ tgpe)
    (seq1 seq2 : Array Nat) (h1A : 1 ≤ seq1.size) (h1B : 1 ≤ seq2.size)
    (P : List Col) (hV : ValidCols P seq1.size seq2.size) (hadj : adjOK .A P = true)
    (hmargin : ∀ Q, ValidCols Q seq1.size seq2.size → adjOK .A Q = true → Q ≠ P →
      scoreST s gpo gpe tgpe Q seq1.toList seq2.toList + (seq2.size : Int) <
        scoreST s gpo gpe tgpe P seq1.toList seq2.toList - gpo * (nterm P : Int) -
          (max 0 (max (tgpe - gpe) (tgpe - gpo)) + max 0 (gpe - tgpe)))
    (n : Nat) (hn : seq1.size + seq2.size + 1 ≤ n) :
    let r := runnerSerial (realKernels ap (.seqseq seq1 seq2) seq1.size seq2.size) false n
      (initMem seq1.size seq2.size)
    r.fault = false ∧
      ∃ codes, expandPath seq2.size (r.pathEntries seq1.size) = some codes ∧ codes.map Col.ofCode = P := by
  intro r
  have H : OptHyp ap gpo gpe tgpe s seq1 seq2 seq1.size seq2.size P := by
    refine ⟨hap, hgpo, hgpe, htgpe, hadj, hV.2.1, hV.2.2, ?_⟩
    intro Q hQadj hQA hQB hne
    have := hmargin Q ⟨adjOK_noskip _ _ hQadj, hQA, hQB⟩ hQadj hne
    rw [C07_walk_eq_scoreST, C07_walk_eq_scoreST]
    show _ < _ - _ - max 0 (max (tgpe - gpe) (tgpe - gpo)) - max 0 (gpe - tgpe)
    omega
  obtain ⟨hf, hpath⟩ := runner_path_opt ap gpo gpe tgpe s seq1 seq2 seq1.size seq2.size P H n hn
  refine ⟨hf, ?_⟩
  show ∃ codes, expandPath seq2.size
    ((runnerSerial (realKernels ap (.seqseq seq1 seq2) seq1.size seq2.size) false n
      (initMem seq1.size seq2.size)).pathEntries seq1.size) = some codes ∧ _
  rw [hpath]
  have hboth : Col.both ∈ P := by
    refine Classical.byContradiction fun hnb => ?_
    have := (gaps_same .A P hadj hnb).2.2
    rw [hV.2.1, hV.2.2] at this
    omega
  exact expandPath_pathFrom seq2.size P hadj hV.2.2 (by rw [hV.2.1]; exact h1A) hboth

/-- the same with the margin `|gpe − tgpe|` of the original claim, valid when `tgpe ≤ gpo` -/
theorem C07_hirschberg_seqseq_opt_abs (ap : AlnParam ExactScore) (gpo gpe tgpe : Int) (s : Nat → Nat → Int)
    (hap : ApOK ap gpo gpe tgpe s) (hgpo : 0 ≤ gpo) (hgpe : 0 ≤ gpe) (htgpe : 0 ≤ tgpe) (htg : tgpe ≤ gpo)
    (seq1 seq2 : Array Nat) (h1A : 1 ≤ seq1.size) (h1B : 1 ≤ seq2.size)
    (P : List Col) (hV : ValidCols P seq1.size seq2.size) (hadj : adjOK .A P = true)
    (hmargin : ∀ Q, ValidCols Q seq1.size seq2.size → adjOK .A Q = true → Q ≠ P →
      scoreST s gpo gpe tgpe Q seq1.toList seq2.toList + (seq2.size : Int) <
        scoreST s gpo gpe tgpe P seq1.toList seq2.toList - gpo * (nterm P : Int) - ((gpe - tgpe).natAbs : Int))
    (n : Nat) (hn : seq1.size + seq2.size + 1 ≤ n) :
    let r := runnerSerial (realKernels ap (.seqseq seq1 seq2) seq1.size seq2.size) false n
      (initMem seq1.size seq2.size)
    r.fault = false ∧
      ∃ codes, expandPath seq2.size (r.pathEntries seq1.size) = some codes ∧ codes.map Col.ofCode = P := by
  refine C07_hirschberg_seqseq_opt ap gpo gpe tgpe s hap hgpo hgpe htgpe seq1 seq2 h1A h1B P hV hadj ?_ n hn
  intro Q hQ hQadj hne
  have := hmargin Q hQ hQadj hne
  have e : max 0 (max (tgpe - gpe) (tgpe - gpo)) + max 0 (gpe - tgpe) = ((gpe - tgpe).natAbs : Int) := by
    omega
  rw [e]; exact this

/-- `do_align`'s serial entry point (`alnRun .serial`, fuel `len_a + len_b + 2`) -/
theorem C07_alnRun_serial_opt (ap : AlnParam ExactScore) (gpo gpe tgpe : Int) (s : Nat → Nat → Int)
    (hap : ApOK ap gpo gpe tgpe s) (hgpo : 0 ≤ gpo) (hgpe : 0 ≤ gpe) (htgpe : 0 ≤ tgpe)
    (seq1 seq2 : Array Nat) (h1A : 1 ≤ seq1.size) (h1B : 1 ≤ seq2.size)
    (P : List Col) (hV : ValidCols P seq1.size seq2.size) (hadj : adjOK .A P = true)
    (hmargin : ∀ Q, ValidCols Q seq1.size seq2.size → adjOK .A Q = true → Q ≠ P →
      scoreST s gpo gpe tgpe Q seq1.toList seq2.toList + (seq2.size : Int) <
        scoreST s gpo gpe tgpe P seq1.toList seq2.toList - gpo * (nterm P : Int) -
          (max 0 (max (tgpe - gpe) (tgpe - gpo)) + max 0 (gpe - tgpe))) :
    let r := alnRun .serial ap (.seqseq seq1 seq2) seq1.size seq2.size (initMem seq1.size seq2.size)
    r.fault = false ∧
      ∃ codes, expandPath seq2.size (r.pathEntries seq1.size) = some codes ∧ codes.map Col.ofCode = P := by
  have := C07_hirschberg_seqseq_opt ap gpo gpe tgpe s hap hgpo hgpe htgpe seq1 seq2 h1A h1B P hV hadj hmargin
    (initMem seq1.size seq2.size : MemE).fuel (by
      show seq1.size + seq2.size + 1 ≤ ((seq1.size : Int) - 0).toNat + ((seq2.size : Int) - 0).toNat + 2
      omega)
  exact this

/-- `aln_runner` (what `do_align` calls; it runs `aln_runner_serial` below 500 rows and then falls through into the same
code because of a missing `return`) computes the same memory as `aln_runner_serial` on such inputs, so **either entry
point of the controller returns `P`** -/
theorem C07_alnRun_opt (entry : Entry) (ap : AlnParam ExactScore) (gpo gpe tgpe : Int) (s : Nat → Nat → Int)
    (hap : ApOK ap gpo gpe tgpe s) (hgpo : 0 ≤ gpo) (hgpe : 0 ≤ gpe) (htgpe : 0 ≤ tgpe)
    (seq1 seq2 : Array Nat) (h1A : 1 ≤ seq1.size) (h1B : 1 ≤ seq2.size)
    (P : List Col) (hV : ValidCols P seq1.size seq2.size) (hadj : adjOK .A P = true)
    (hmargin : ∀ Q, ValidCols Q seq1.size seq2.size → adjOK .A Q = true → Q ≠ P →
      scoreST s gpo gpe tgpe Q seq1.toList seq2.toList + (seq2.size : Int) <
        scoreST s gpo gpe tgpe P seq1.toList seq2.toList - gpo * (nterm P : Int) -
          (max 0 (max (tgpe - gpe) (tgpe - gpo)) + max 0 (gpe - tgpe))) :
    let r := alnRun entry ap (.seqseq seq1 seq2) seq1.size seq2.size (initMem seq1.size seq2.size)
    r.fault = false ∧
      ∃ codes, expandPath seq2.size (r.pathEntries seq1.size) = some codes ∧ codes.map Col.ofCode = P := by
  have hser := C07_alnRun_serial_opt ap gpo gpe tgpe s hap hgpo hgpe htgpe seq1 seq2 h1A h1B P hV hadj hmargin
  cases entry with
  | serial => exact hser
  | parallel =>
    have H : OptHyp ap gpo gpe tgpe s seq1 seq2 seq1.size seq2.size P := by
      refine ⟨hap, hgpo, hgpe, htgpe, hadj, hV.2.1, hV.2.2, ?_⟩
      intro Q hQadj hQA hQB hne
      have := hmargin Q ⟨adjOK_noskip _ _ hQadj, hQA, hQB⟩ hQadj hne
      rw [C07_walk_eq_scoreST, C07_walk_eq_scoreST]
      show _ < _ - _ - max 0 (max (tgpe - gpe) (tgpe - gpo)) - max 0 (gpe - tgpe)
      omega
    have hPre : Pre P seq1.size seq2.size (initMem seq1.size seq2.size : MemE) := by
      refine ⟨rfl, fun i _ _ => Or.inl (initMemE_pe _ _ i), ?_, by show (0 : Int) ≤ 0; omega, Or.inr ?_⟩
      · refine ⟨?_, ?_, ?_⟩ <;> simp [initMem] <;> omega
      · refine ⟨0, seq1.size, 0, seq2.size, rfl, rfl, rfl, rfl, ?_, ?_, ?_⟩
        · exact ⟨[], P, [], by simp, rfl, rfl, by simpa using hV.2.1, by simpa using hV.2.2, rfl, rfl,
            Or.inl (by simp), Or.inl (by simp)⟩
        · show ((Array.replicate (max seq1.size seq2.size + 2) States.negInf).set! 0 oneHotA).getD 0 States.negInf
            = hot .A
          simp [Array.getD]; rfl
        · show ((Array.replicate (max seq1.size seq2.size + 2) States.negInf).set! 0 oneHotA).getD 0 States.negInf
            = hot .A
          simp [Array.getD]; rfl
    have heq := runner_eq_serial_opt ap gpo gpe tgpe s seq1 seq2 seq1.size seq2.size P H
      (initMem seq1.size seq2.size : MemE).fuel _ hPre (by
        show ((seq1.size : Int) - 0).toNat + ((seq2.size : Int) - 0).toNat + 1 ≤
          ((seq1.size : Int) - 0).toNat + ((seq2.size : Int) - 0).toNat + 2
        omega)
    show (runner _ false _ _).fault = false ∧ ∃ codes, expandPath seq2.size
      ((runner _ false _ _).pathEntries seq1.size) = some codes ∧ _
    rw [heq]
    exact hser

/-! ## non-vacuity: concrete instances -/

/-- all column lists (without `skip`) that consume `a` rows and `b` columns; `f` = fuel ≥ length -/
def enumCols : Nat → Nat → Nat → List (List Col)
  | 0, a, b => if a = 0 ∧ b = 0 then [[]] else []
  | f + 1, a, b =>
    (if a = 0 ∧ b = 0 then [[]] else []) ++
    (match a, b with
      | a' + 1, b' + 1 => (enumCols f a' b').map (Col.both :: ·)
      | _, _ => []) ++
    (match b with
      | b' + 1 => (enumCols f a b').map (Col.gapA :: ·)
      | 0 => []) ++
    (match a with
      | a' + 1 => (enumCols f a' b).map (Col.gapB :: ·)
      | 0 => [])

theorem enumCols_complete (Q : List Col) (hs : Col.skip ∉ Q) :
    ∀ f, Q.length ≤ f → Q ∈ enumCols f (consA Q) (consB Q) := by
  induction Q with
  | nil => intro f _; cases f <;> simp [enumCols]
  | cons c cs ih =>
    intro f hf
    have hs' : Col.skip ∉ cs := fun h => hs (List.mem_cons_of_mem _ h)
    cases f with
    | zero => simp at hf
    | succ f =>
      have ih' := ih hs' f (by simpa using hf)
      cases c with
      | skip => exact absurd (by simp) hs
      | both =>
        simp only [consA_both, consB_both, enumCols]
        simp only [List.mem_append, List.mem_map]
        left; left; right
        exact ⟨cs, ih', rfl⟩
      | gapA =>
        simp only [consA_gapA, consB_gapA, enumCols]
        simp only [List.mem_append, List.mem_map]
        left; right
        exact ⟨cs, ih', rfl⟩
      | gapB =>
        simp only [consA_gapB, consB_gapB, enumCols]
        simp only [List.mem_append, List.mem_map]
        right
        exact ⟨cs, ih', rfl⟩

theorem length_le_cons (Q : List Col) (hs : Col.skip ∉ Q) : Q.length ≤ consA Q + consB Q := by
  induction Q with
  | nil => simp
  | cons c cs ih =>
    have := ih (fun h => hs (List.mem_cons_of_mem _ h))
    cases c with
    | skip => exact absurd (by simp) hs
    | both => simp; omega
    | gapA => simp; omega
    | gapB => simp; omega

/-- a = (0,1,2), b = (0,2), match 5.0 / mismatch −4.0, gpo 0.5, gpe 0.25, tgpe 0.1: the alignment `a₀b₀, a₁–, a₂b₁`
beats the other 24 column lists by more than the safe margin — **the hypotheses of `C07_hirschberg_seqseq_opt` are
satisfiable**, and the conclusion is what the model computes -/
example :
    let P : List Col := [.both, .gapB, .both]
    ValidCols P (#[0, 1, 2] : Array Nat).size (#[0, 2] : Array Nat).size ∧ adjOK .A P = true ∧
    (∀ Q, ValidCols Q (#[0, 1, 2] : Array Nat).size (#[0, 2] : Array Nat).size → adjOK .A Q = true → Q ≠ P →
      scoreST exS 1000 500 200 Q (#[0, 1, 2] : Array Nat).toList (#[0, 2] : Array Nat).toList +
          ((#[0, 2] : Array Nat).size : Int) <
        scoreST exS 1000 500 200 P (#[0, 1, 2] : Array Nat).toList (#[0, 2] : Array Nat).toList -
          1000 * (nterm P : Int) - (max 0 (max (200 - 500) (200 - 1000)) + max 0 (500 - 200))) := by
  intro P
  refine ⟨⟨by decide, by decide, by decide⟩, by decide, ?_⟩
  intro Q hV hadj hne
  have hmem : Q ∈ enumCols 5 3 2 := by
    have h := enumCols_complete Q hV.1 5 (by
      have := length_le_cons Q hV.1
      rw [hV.2.1, hV.2.2] at this
      exact this)
    rw [hV.2.1, hV.2.2] at h
    exact h
  have hall : (enumCols 5 3 2).all (fun Q => !(adjOK .A Q) || decide (Q = P) ||
      decide (scoreST exS 1000 500 200 Q [0, 1, 2] [0, 2] + 2 <
        scoreST exS 1000 500 200 P [0, 1, 2] [0, 2] - 1000 * (nterm P : Int) -
          (max 0 (max (200 - 500) (200 - 1000)) + max 0 (500 - 200)))) = true := by
    decide +kernel
  have := List.all_eq_true.mp hall Q hmem
  simp only [Bool.or_eq_true, Bool.not_eq_true', decide_eq_true_eq] at this
  rcases this with (h | h) | h
  · rw [hadj] at h; exact absurd h (by simp)
  · exact absurd h hne
  · exact h

example : ((runnerSerial (realKernels exP2 (.seqseq #[0, 1, 2] #[0, 2]) 3 2) false 6 (initMem 3 2)).pathEntries 3) =
    [1, -1, 2] := by decide +kernel
example : (expandPath 2 [1, -1, 2]).map (·.map Col.ofCode) = some [.both, .gapB, .both] := by decide +kernel

/-! S1 on a concrete rectangle: a = (0,1,2), b = (0,2); forward kernel on rows 0..2 × columns 0..2 from kind `A`:
the `a` cells are the readings of the best partial column lists ending aligned in that column — instances of (i)
(`[both, both]` reads 2000 = cell 2; a gap-in-b column after a gap-in-a column reads −∞) and of (ii) (cell 1 is
attained by `[gapB, both]`: terminal column `tgpe`, closing charge `gpo`, mismatch) -/
example :
    (ssForward exP2 #[0, 1, 2] #[0, 2] ⟨0, 2, 0, 2, 2⟩ (hot .A)).map (·.a) = [none, some (-9200), some 2000] ∧
    readF 1000 500 200 exS #[0, 1, 2] #[0, 2] ⟨0, 2, 0, 2, 2⟩ (hot .A) .A [.both, .both] = some 2000 ∧
    readF 1000 500 200 exS #[0, 1, 2] #[0, 2] ⟨0, 2, 0, 2, 2⟩ (hot .A) .A [.gapA, .gapB, .both] = none ∧
    readF 1000 500 200 exS #[0, 1, 2] #[0, 2] ⟨0, 2, 0, 2, 2⟩ (hot .A) .A [.gapB, .both] = some (-9200) := by
  decide +kernel

example :
    (ssBackward exP2 #[0, 1, 2] #[0, 2] ⟨2, 3, 0, 2, 2⟩ (hot .A)).map (·.a) = [some (-9200), some 10000, none] ∧
    readB 1000 500 200 exS #[0, 1, 2] #[0, 2] ⟨2, 3, 0, 2, 2⟩ (hot .A) .A [.both] = some 10000 := by
  decide +kernel

/-! S2 on the top level of the same problem: middle row 1, the meetup returns column 1, transition 3 (aligned / gap-in-b) -/
example :
    let r := kMeetup exP2 (.seqseq #[0, 1, 2] #[0, 2]) ⟨0, 1, 0, 2, 2⟩ 1
      (kForward exP2 (.seqseq #[0, 1, 2] #[0, 2]) ⟨0, 1, 0, 2, 2⟩ (hot .A))
      (kBackward exP2 (.seqseq #[0, 1, 2] #[0, 2]) ⟨1, 3, 0, 2, 2⟩ (hot .A))
    (r.meet, r.transition, r.score) = (1, 3, some 18000) ∧
    r = absMeet (cfgF 1000 500 200 exS #[0, 1, 2] #[0, 2] ⟨0, 1, 0, 2, 2⟩)
      (cfgB 1000 500 200 exS #[0, 1, 2] #[0, 2] ⟨1, 3, 0, 2, 2⟩) 1 2 (hot .A) (hot .A) 0 2 := by
  refine ⟨by decide +kernel, ?_⟩
  exact C07_ssMeet_eq exP2 1000 500 200 exS exP2_ok #[0, 1, 2] #[0, 2] 0 1 3 0 2 2 (by omega) (by omega) _ _

/-- the reference score on hand-computed examples: an internal run of one column costs `2·gpo`, a trailing run of two
columns `2·tgpe`; a leading run of two and an internal run of two cost `2·tgpe` and `2·gpo + gpe` -/
example : scoreST exS 16000 12000 3000 [.both, .gapB, .both, .both, .gapA, .gapA] [0, 1, 2, 3] [0, 2, 3, 3, 1] =
    3 * 10000 - 2 * 16000 - 2 * 3000 := by decide +kernel
example : scoreST exS 16000 12000 3000 [.gapA, .gapA, .both, .gapB, .gapB, .both] [0, 3, 3, 1] [2, 2, 0, 1] =
    2 * 10000 - 2 * 3000 - (2 * 16000 + 12000) := by decide +kernel
example : rle [.gapA, .gapA, .both, .gapB, .gapB, .both] = [(.gapA, 2), (.both, 1), (.gapB, 2), (.both, 1)] := by
  decide
example : scoreSTruns exS 16000 12000 3000 [.gapA, .gapA, .both, .gapB, .gapB, .both] [0, 3, 3, 1] [2, 2, 0, 1] =
    2 * 10000 - 2 * 3000 - (2 * 16000 + 12000) := by decide +kernel

end Kalign
