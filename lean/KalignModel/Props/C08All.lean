import KalignModel.Props.C08Opt
import KalignModel.Props.C07Soft
import KalignModel.Props.C07SoftGroups
import KalignModel.Props.C08Direct
import KalignModel.Props.C08DirectSoft
/-! aggregator for tools/props/c08.py: C08, C08Opt and the binary32 diagonal theorems C08Soft_* (stated in Props/C07Soft.lean) -/
