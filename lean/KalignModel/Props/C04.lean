import KalignModel.Lemmas.IO.PresentMsf
import KalignModel.Lemmas.IO.MsfHeader
import KalignModel.Lemmas.IO.Split
/-!
# C04 (reader part) — the result of reading depends only on names and residues

* `scanner_spec`: the scanner shared by the three readers keeps the letters, counts punctuation bytes as gaps (any
  `ispunct` glyph) and skips everything else (blanks, digits, bytes ≥ 128).
* `read_fasta_presentation`: FASTA text in *any* presentation — any line widths, empty lines, any gap glyphs, padding,
  digits, junk lines without letters/punctuation before the first header — is read as (name, letters of the record,
  gap vector of the record); `read_fasta_presentation_invariant`: two presentations with the same names and letters give
  the same (names, residues).
* `read_clu_presentation(_invariant)`: the same for Clustal text: any block widths, any number of empty lines between
  blocks, conservation lines, any blanks/digits/glyphs in the payload.
* `read_msf_presentation(_invariant)`: the same for MSF text: the header is any list of lines of the grammar of
  Lemmas/IO/MsfHeader.lean (other lines without `//` that lack `Name:` or `Len:`; name lines
  `pre Name: blanks name [blank …]` containing `Len:`), closed by a line containing `//`; the body is `msfPres`.
  The grammar covers the headers kalign writes (`msf_grammar_covers_written`) and GCG/PileUp-style headers (example
  below).  Not covered: a `//` inside a name line, names > 255 bytes, names with blanks, a name line without `Len:`, an
  earlier `Name:` on the same line.  `read_msf_presentation_partial` (header phase as a hypothesis) is kept; the full
  theorem is derived from it.
* `read_split_files`, `split_same_as_one_file`, `dealign_forgets_gaps`: records split over several input files.
* `formats_agree`: FASTA and Clustal presentations of the same records give the same (names, residues);
  `letterFreq_depends_on_residues`: so do the letter histogram and the detected alphabet.
`kalign_run` discards the gap vectors (`dealign_msa`), so (names, residues) is all that reaches the aligner.
-/
namespace Kalign.IO
open List

/-- what `kalign_run` keeps of the sequences that were read -/
def namesRes (S : List SeqRec) : List (Bytes × Bytes) := S.map fun s => (s.name, s.res)

/-- the letters of a payload given as pieces -/
def letters (pieces : List Bytes) : Bytes := pieces.flatten.filter isAlpha

theorem scanner_spec (nm l : Bytes) :
    (feed (SeqAcc.new nm) l).finish = ⟨nm, l.filter isAlpha, gapVec l⟩ ∧
    (gapVec l).sum = (l.filter isPunct).length :=
  ⟨scan_spec nm l, gapVec_sum l⟩

/-! ## FASTA -/

/-- a line that `read_fasta` skips when no sequence is open: not a header, no letters, no punctuation -/
def Junk (l : Bytes) : Prop := l.head? ≠ some 62 ∧ l.any (fun b => isAlpha b || isPunct b) = false

theorem read_fasta_presentation (pre : List Bytes) (recs : List (Bytes × List Bytes))
    (hpre : ∀ l ∈ pre, Junk l) (h62 : ∀ r ∈ recs, ∀ l ∈ r.2, l.head? ≠ some 62) :
    readFasta (pre ++ faPres recs) =
      some (recs.map fun r => ⟨r.1, letters r.2, gapVec r.2.flatten⟩) := by
  unfold readFasta
  rw [faFold_junk pre _ [] hpre]
  obtain ⟨st', h1, h2⟩ := faFold_pres recs ⟨[], none⟩ h62
  rw [h1, Option.map_some, h2]
  simp only [FaState.seqs, reverse_nil, map_nil, nil_append, Option.some.injEq]
  apply map_congr_left
  intro r _
  exact scan_spec r.1 r.2.flatten

theorem read_fasta_presentation_invariant (pre1 pre2 : List Bytes) (recs1 recs2 : List (Bytes × List Bytes))
    (hpre1 : ∀ l ∈ pre1, Junk l) (hpre2 : ∀ l ∈ pre2, Junk l)
    (h1 : ∀ r ∈ recs1, ∀ l ∈ r.2, l.head? ≠ some 62) (h2 : ∀ r ∈ recs2, ∀ l ∈ r.2, l.head? ≠ some 62)
    (hsame : recs1.map (fun r => (r.1, letters r.2)) = recs2.map (fun r => (r.1, letters r.2))) :
    (readFasta (pre1 ++ faPres recs1)).map namesRes = (readFasta (pre2 ++ faPres recs2)).map namesRes := by
  rw [read_fasta_presentation pre1 recs1 hpre1 h1, read_fasta_presentation pre2 recs2 hpre2 h2]
  simp only [Option.map_some, namesRes, map_map, Function.comp_def]
  exact congrArg some hsame

/-- byte level: a text whose lines contain no control bytes is split into exactly these lines -/
theorem presentation_lines (ls : List Bytes) (h : ∀ l ∈ ls, ∀ b ∈ l, isCntrl b = false) :
    splitLines (emit ls) = ls := splitLines_emit ls h

/-! ## Clustal -/

/-- lines before the first block that change nothing: empty, or starting with a blank -/
def CluJunk (l : Bytes) : Prop := l = [] ∨ BlankStart l

theorem clu_junk (ls : List Bytes) (h : ∀ l ∈ ls, CluJunk l) : ls.foldl cluLine ⟨[], []⟩ = ⟨[], []⟩ := by
  induction ls with
  | nil => rfl
  | cons l ls ih =>
    simp only [foldl_cons]
    have : cluLine ⟨[], []⟩ l = ⟨[], []⟩ := by
      rcases h l (by simp) with rfl | ⟨b, t, hl, hb⟩
      · rfl
      · exact cluLine_blankStart _ l b t hl hb
    rw [this]; exact ih (fun x hx => h x (by simp [hx]))

/-- Clustal text: a title line, junk, then `k + 1` blocks (`cluPres`): every row `r` of `rs` contributes one line
`name␣payload` per block, `r.2` lists its payloads; `extra b` = conservation lines and additional empty lines of block `b` -/
theorem read_clu_presentation (title : Bytes) (junk : List Bytes) (extra : Nat → List Bytes × Nat) (k : Nat)
    (rs : List RowC) (hj : ∀ l ∈ junk, CluJunk l) (hx : ∀ b, ∀ l ∈ (extra b).1, BlankStart l)
    (hk : ∀ r ∈ rs, r.2.length = k + 1) (hn : ∀ r ∈ rs, NmOK' r.1) :
    readClu (title :: (junk ++ cluPres extra (k + 1) 0 rs)) =
      rs.map fun r => ⟨r.1, letters r.2, gapVec r.2.flatten⟩ := by
  simp only [readClu, drop_succ_cons, drop_zero, foldl_append]
  rw [clu_junk junk hj, clu_pres_all extra hx k rs hk hn]
  simp only [Blk.seqs, reverse_nil, nil_append, map_map]
  apply map_congr_left
  intro r _
  exact scan_spec r.1 r.2.flatten

theorem read_clu_presentation_invariant (t1 t2 : Bytes) (j1 j2 : List Bytes) (x1 x2 : Nat → List Bytes × Nat)
    (k1 k2 : Nat) (rs1 rs2 : List RowC)
    (hj1 : ∀ l ∈ j1, CluJunk l) (hj2 : ∀ l ∈ j2, CluJunk l)
    (hx1 : ∀ b, ∀ l ∈ (x1 b).1, BlankStart l) (hx2 : ∀ b, ∀ l ∈ (x2 b).1, BlankStart l)
    (hk1 : ∀ r ∈ rs1, r.2.length = k1 + 1) (hk2 : ∀ r ∈ rs2, r.2.length = k2 + 1)
    (hn1 : ∀ r ∈ rs1, NmOK' r.1) (hn2 : ∀ r ∈ rs2, NmOK' r.1)
    (hsame : rs1.map (fun r => (r.1, letters r.2)) = rs2.map (fun r => (r.1, letters r.2))) :
    namesRes (readClu (t1 :: (j1 ++ cluPres x1 (k1 + 1) 0 rs1))) =
      namesRes (readClu (t2 :: (j2 ++ cluPres x2 (k2 + 1) 0 rs2))) := by
  rw [read_clu_presentation t1 j1 x1 k1 rs1 hj1 hx1 hk1 hn1, read_clu_presentation t2 j2 x2 k2 rs2 hj2 hx2 hk2 hn2]
  simp only [namesRes, map_map, Function.comp_def]
  exact hsame

/-- FASTA and Clustal presentations of the same records are read as the same (names, residues) -/
theorem formats_agree (pre : List Bytes) (recs : List (Bytes × List Bytes)) (title : Bytes) (junk : List Bytes)
    (extra : Nat → List Bytes × Nat) (k : Nat) (rs : List RowC)
    (hpre : ∀ l ∈ pre, Junk l) (h62 : ∀ r ∈ recs, ∀ l ∈ r.2, l.head? ≠ some 62)
    (hj : ∀ l ∈ junk, CluJunk l) (hx : ∀ b, ∀ l ∈ (extra b).1, BlankStart l)
    (hk : ∀ r ∈ rs, r.2.length = k + 1) (hn : ∀ r ∈ rs, NmOK' r.1)
    (hsame : recs.map (fun r => (r.1, letters r.2)) = rs.map (fun r => (r.1, letters r.2))) :
    (readFasta (pre ++ faPres recs)).map namesRes =
      some (namesRes (readClu (title :: (junk ++ cluPres extra (k + 1) 0 rs)))) := by
  rw [read_fasta_presentation pre recs hpre h62, read_clu_presentation title junk extra k rs hj hx hk hn]
  simp only [Option.map_some, namesRes, map_map, Function.comp_def]
  exact congrArg some hsame

/-! ## MSF -/

/-- the block phase of `read_msf`: `names` are the sequences created by the header, the body is one empty line, then
`k` blocks in which every row is its name immediately followed by the payload -/
theorem msf_junk (junk ls : List Bytes) (h : ∀ l ∈ junk, CluJunk l) (rest : List SeqAcc) :
    msfFold ⟨[], rest⟩ (junk ++ ls) = msfFold ⟨[], rest⟩ ls := by
  induction junk with
  | nil => rfl
  | cons l js ih =>
    rw [cons_append]
    rcases h l (by simp) with rfl | ⟨b, t, hl, hb⟩
    · rw [msfFold_cons _ ⟨[], rest⟩ [] _ (by simp [msfLine, Blk.rewind])]
      exact ih (fun x hx => h x (by simp [hx]))
    · rw [msfFold_cons _ ⟨[], rest⟩ l _ (by subst hl; simp [msfLine, hb])]
      exact ih (fun x hx => h x (by simp [hx]))

theorem read_msf_body_presentation (junk : List Bytes) (hj : ∀ l ∈ junk, CluJunk l)
    (extra : Nat → List Bytes × Nat) (hx : ∀ b, ∀ l ∈ (extra b).1, BlankStart l)
    (k : Nat) (rs : List RowC) (hk : ∀ r ∈ rs, r.2.length = k) (hn : ∀ r ∈ rs, StartsNonBlank r.1) :
    (msfFold ⟨[], rs.map fun r => SeqAcc.new r.1⟩ (junk ++ msfPres extra k 0 rs)).map Blk.seqs =
      some (rs.map fun r => ⟨r.1, letters r.2, gapVec r.2.flatten⟩) := by
  rw [msf_junk junk _ hj]
  let ps : List Prog := rs.map fun r => (r.1, [], r.2)
  have h1 : (rs.map fun r => SeqAcc.new r.1) = ps.map Prog.acc := by
    simp [ps, Prog.acc, feed_nil]
  have h2 : rs = ps.map Prog.row := by
    simp only [ps, map_map]
    conv => lhs; rw [← map_id rs]
    apply map_congr_left
    intro r _; rfl
  rw [h1]
  conv => lhs; rw [h2]
  rw [msf_pres_blocks extra hx k 0 ps]
  · simp only [Option.map_some, Blk.seqs, reverse_nil, nil_append, Option.some.injEq, ps, map_map]
    apply map_congr_left
    intro r _
    simp only [Function.comp, Prog.final, nil_append]
    exact scan_spec r.1 r.2.flatten
  · intro p hp
    simp only [ps, mem_map] at hp
    obtain ⟨r, hr, rfl⟩ := hp
    exact hk r hr
  · intro p hp
    simp only [ps, mem_map] at hp
    obtain ⟨r, hr, rfl⟩ := hp
    exact hn r hr

/-
Full statement (not proved): for every header `hdr` made of lines without `//` that either lack `Name:`/`Len:` or have
the form `… Name: <name> … Len: …`, followed by a line containing `//`,
  `readMsf (hdr ++ sep :: junk ++ msfPres extra k 0 rs) = some (rs.map fun r => ⟨r.1, letters r.2, gapVec r.2.flatten⟩)`.
The header phase is the explicit hypothesis `hhdr` below; it is proved for the headers kalign writes
(`msfHeader_written`, used by `msf_roundtrip` in C06).
-/
theorem read_msf_presentation_partial (lines junk : List Bytes) (hj : ∀ l ∈ junk, CluJunk l)
    (extra : Nat → List Bytes × Nat)
    (hx : ∀ b, ∀ l ∈ (extra b).1, BlankStart l) (k : Nat) (rs : List RowC)
    (hk : ∀ r ∈ rs, r.2.length = k) (hn : ∀ r ∈ rs, StartsNonBlank r.1)
    (hhdr : msfHeader lines [] = (rs.map fun r => SeqAcc.new r.1, junk ++ msfPres extra k 0 rs)) :
    readMsf lines = some (rs.map fun r => ⟨r.1, letters r.2, gapVec r.2.flatten⟩) := by
  unfold readMsf
  rw [hhdr]
  exact read_msf_body_presentation junk hj extra hx k rs hk hn

/-- the names announced by a valid header start with a non-blank byte -/
theorem hdrNames_startsNonBlank (hdr : List HdrLine) (hv : ∀ x ∈ hdr, x.Valid) :
    ∀ nm ∈ hdrNames hdr, StartsNonBlank nm := by
  intro nm hm
  simp only [hdrNames, mem_filterMap] at hm
  obtain ⟨⟨l, o⟩, hx, ho⟩ := hm
  simp only at ho
  subst ho
  have h : IsNameLine l nm := hv (l, some nm) hx
  obtain ⟨b, t, hnm⟩ := exists_cons_of_ne_nil h.ne
  exact ⟨b, t, hnm, h.nosp b (by rw [hnm]; simp)⟩

/-- **MSF text in any presentation**: a header of the grammar (`hdr`, announcing the names of `rs` in order), a line
containing `//`, junk (empty lines, lines starting with a blank), then `k` blocks (`msfPres`): every row is read as its
name, the letters of its payloads and the gap vector of its payloads -/
theorem read_msf_presentation (hdr : List HdrLine) (hv : ∀ x ∈ hdr, x.Valid) (sep : Bytes)
    (hsep : hasSub (ascii "//") sep = true) (junk : List Bytes) (hj : ∀ l ∈ junk, CluJunk l)
    (extra : Nat → List Bytes × Nat) (hx : ∀ b, ∀ l ∈ (extra b).1, BlankStart l) (k : Nat) (rs : List RowC)
    (hk : ∀ r ∈ rs, r.2.length = k) (hnames : hdrNames hdr = rs.map (·.1)) :
    readMsf (hdr.map (·.1) ++ sep :: (junk ++ msfPres extra k 0 rs)) =
      some (rs.map fun r => ⟨r.1, letters r.2, gapVec r.2.flatten⟩) := by
  apply read_msf_presentation_partial _ junk hj extra hx k rs hk
  · intro r hr
    exact hdrNames_startsNonBlank hdr hv r.1 (by rw [hnames]; exact mem_map.mpr ⟨r, hr, rfl⟩)
  · rw [msfHeader_grammar hdr hv sep hsep, hnames]
    simp

theorem read_msf_presentation_invariant (hdr1 hdr2 : List HdrLine) (hv1 : ∀ x ∈ hdr1, x.Valid)
    (hv2 : ∀ x ∈ hdr2, x.Valid) (sep1 sep2 : Bytes) (hs1 : hasSub (ascii "//") sep1 = true)
    (hs2 : hasSub (ascii "//") sep2 = true) (j1 j2 : List Bytes) (hj1 : ∀ l ∈ j1, CluJunk l) (hj2 : ∀ l ∈ j2, CluJunk l)
    (x1 x2 : Nat → List Bytes × Nat) (hx1 : ∀ b, ∀ l ∈ (x1 b).1, BlankStart l) (hx2 : ∀ b, ∀ l ∈ (x2 b).1, BlankStart l)
    (k1 k2 : Nat) (rs1 rs2 : List RowC) (hk1 : ∀ r ∈ rs1, r.2.length = k1) (hk2 : ∀ r ∈ rs2, r.2.length = k2)
    (hn1 : hdrNames hdr1 = rs1.map (·.1)) (hn2 : hdrNames hdr2 = rs2.map (·.1))
    (hsame : rs1.map (fun r => (r.1, letters r.2)) = rs2.map (fun r => (r.1, letters r.2))) :
    (readMsf (hdr1.map (·.1) ++ sep1 :: (j1 ++ msfPres x1 k1 0 rs1))).map namesRes =
      (readMsf (hdr2.map (·.1) ++ sep2 :: (j2 ++ msfPres x2 k2 0 rs2))).map namesRes := by
  rw [read_msf_presentation hdr1 hv1 sep1 hs1 j1 hj1 x1 hx1 k1 rs1 hk1 hn1,
    read_msf_presentation hdr2 hv2 sep2 hs2 j2 hj2 x2 hx2 k2 rs2 hk2 hn2]
  simp only [Option.map_some, namesRes, map_map, Function.comp_def]
  exact congrArg some hsame

/-- (a) the grammar covers the header kalign writes -/
theorem msf_grammar_covers_written (date : Bytes) (A : Alignment) (h : HdrOK A.basename date)
    (hn : ∀ r ∈ A.rows, NmOK (maxNameLen A) r.name ∧ ∀ b ∈ r.name, plainChar b = true) :
    (∀ x ∈ writtenHdr date A, x.Valid) ∧ hdrNames (writtenHdr date A) = A.rows.map (·.name) ∧
    msfHeaderLines date A = (writtenHdr date A).map (·.1) ++ [ascii "//", []] :=
  writtenHdr_covers date A h hn

/-- (b) a GCG / PileUp style header is in the grammar: free text, blank lines, the `MSF:` line, `Name:` lines with
several blanks, `Len:`/`Check:`/`Weight:` in arbitrary values, one line with `Len:` in front of `Name:` -/
example :
    let hdr : List HdrLine := [
      (ascii "PileUp of: @list.fil", none), ([], none),
      (ascii " Symbol comparison table: GenRunData:blosum62.cmp  CompCheck: 6430", none), ([], none),
      (ascii " pileup.msf  MSF: 12  Type: P  July 3, 1997 09:21  Check: 7 ..", none), ([], none),
      (ascii " Name: sp|P1_X       Len:    12  Check: 2413  Weight:  1.00", some (ascii "sp|P1_X")),
      ([], none),
      (ascii "  Name:   b.2   oo  Len: 3 Check: 0 Weight: 0.5", some (ascii "b.2")),
      (ascii "Len: 12 Weight: 1.00 Name: c", some (ascii "c")),
      ([], none)]
    (∀ x ∈ hdr, x.Valid) ∧ hdrNames hdr = [ascii "sp|P1_X", ascii "b.2", ascii "c"] := by
  intro hdr
  refine ⟨?_, by decide⟩
  intro x hx
  simp only [hdr, mem_cons] at hx
  rcases hx with rfl | rfl | rfl | rfl | rfl | rfl | rfl | rfl | rfl | rfl | rfl | hx
  · show IsOtherLine _; decide
  · show IsOtherLine _; decide
  · show IsOtherLine _; decide
  · show IsOtherLine _; decide
  · show IsOtherLine _; decide
  · show IsOtherLine _; decide
  · exact ⟨⟨[32], [32], ascii "       Len:    12  Check: 2413  Weight:  1.00", by decide, by decide, by decide,
      Or.inr ⟨32, _, rfl, by decide⟩⟩, by decide, by decide, by decide, by decide, by decide⟩
  · show IsOtherLine _; decide
  · exact ⟨⟨[32, 32], [32, 32, 32], ascii "   oo  Len: 3 Check: 0 Weight: 0.5", by decide, by decide, by decide,
      Or.inr ⟨32, _, rfl, by decide⟩⟩, by decide, by decide, by decide, by decide, by decide⟩
  · exact ⟨⟨ascii "Len: 12 Weight: 1.00 ", [32], [], by decide, by decide, by decide, Or.inl rfl⟩,
      by decide, by decide, by decide, by decide, by decide⟩
  · show IsOtherLine _; decide
  · simp at hx

/-! ## what else depends on the residues only -/

theorem letterFreq_depends_on_residues (S1 S2 : List SeqRec) (h : S1.map (·.res) = S2.map (·.res)) :
    letterFreq S1 = letterFreq S2 := by
  have key : ∀ (S : List SeqRec) (init : Array Nat),
      S.foldl (fun h s => s.res.foldl (fun h b => h.modify b.toNat (· + 1)) h) init =
      (S.map (·.res)).foldl (fun h r => r.foldl (fun h b => h.modify b.toNat (· + 1)) h) init := by
    intro S
    induction S with
    | nil => intro init; rfl
    | cons s ss ih => intro init; simp only [foldl_cons, map_cons]; exact ih _
  unfold letterFreq
  rw [key S1, key S2, h]

/-- same residues ⇒ same detected alphabet (`detect_alphabet` looks at `letter_freq` only) -/
theorem biotype_depends_on_residues (S1 S2 : List SeqRec) (h : S1.map (·.res) = S2.map (·.res)) (bio L : Nat) :
    detectAlphabet (letterFreq S1) bio L = detectAlphabet (letterFreq S2) bio L := by
  rw [letterFreq_depends_on_residues S1 S2 h]

/-- non-vacuity: two different presentations of the same two records (other widths, `.` and `~` as gap glyphs, an empty
line, padding, digits) satisfy the hypotheses of `read_fasta_presentation_invariant` -/
example :
    let r1 : List (Bytes × List Bytes) := [(ascii "a", [ascii "AC-GT"]), (ascii "b x", [ascii "A--GT"])]
    let r2 : List (Bytes × List Bytes) := [(ascii "a", [ascii " AC", [], ascii ".G 10", ascii "T"]), (ascii "b x", [ascii "A~~", ascii "GT  "])]
    (∀ r ∈ r1, ∀ l ∈ r.2, l.head? ≠ some 62) ∧ (∀ r ∈ r2, ∀ l ∈ r.2, l.head? ≠ some 62) ∧
    r1.map (fun r => (r.1, letters r.2)) = r2.map (fun r => (r.1, letters r.2)) := by decide

/-- non-vacuity of the Clustal hypotheses: two rows in two blocks, a conservation line, extra empty lines -/
example :
    let rs : List RowC := [(ascii "s1", [ascii "  AC-", ascii " GT 5"]), (ascii "a|b", [ascii "A.~", ascii "GT"])]
    let extra : Nat → List Bytes × Nat := fun b => if b = 0 then ([ascii "    **"], 2) else ([], 0)
    (∀ r ∈ rs, r.2.length = 1 + 1) ∧ (∀ r ∈ rs, r.1 ≠ [] ∧ r.1.length ≤ 200 ∧ ∀ b ∈ r.1, isSpace b = false) ∧
    (∀ l ∈ (extra 0).1, l.head?.map isSpace = some true) := by decide

/-! ## records split over several input files -/

theorem gapVec_length (l : Bytes) : (gapVec l).length = (l.filter isAlpha).length + 1 := by
  induction l with
  | nil => rfl
  | cons b t ih =>
    simp only [gapVec]
    by_cases h1 : isAlpha b = true
    · simp [h1, ih]
    · by_cases h2 : isPunct b = true
      · have hb : ∀ g : List Nat, g ≠ [] → (bump g).length = g.length := by
          intro g hg; cases g with
          | nil => exact absurd rfl hg
          | cons => rfl
        simp [h1, h2, hb _ (gapVec_ne_nil t), ih]
      · simp [h1, h2, ih]

/-- the records a presentation stands for: name, letters, gap vector of the pieces -/
def recOf (r : Bytes × List Bytes) : SeqRec := ⟨r.1, letters r.2, gapVec r.2.flatten⟩

theorem recOf_gapsWF (rs : List (Bytes × List Bytes)) : GapsWF (rs.map recOf) := by
  intro s hs
  simp only [mem_map] at hs
  obtain ⟨r, _, rfl⟩ := hs
  exact gapVec_length r.2.flatten

/-- `file` is a FASTA, Clustal or MSF presentation (in the sense of the three presentation theorems) of the records `S`,
given as complete lines without control bytes whose first line is not one byte long and whose format is sniffed
correctly (`detectFormat` is a decidable side condition of the concrete text) -/
inductive Presents : Bytes → List SeqRec → Prop
  | fasta (pre : List Bytes) (recs : List (Bytes × List Bytes))
      (hpre : ∀ l ∈ pre, Junk l) (h62 : ∀ r ∈ recs, ∀ l ∈ r.2, l.head? ≠ some 62) (hne : recs ≠ [])
      (hcn : ∀ l ∈ pre ++ faPres recs, ∀ b ∈ l, isCntrl b = false)
      (hfirst : ∀ l ls, pre ++ faPres recs = l :: ls → l.length ≠ 1)
      (hdet : detectFormat (pre ++ faPres recs) = 1) :
      Presents (emit (pre ++ faPres recs)) (recs.map recOf)
  | clu (title : Bytes) (junk : List Bytes) (extra : Nat → List Bytes × Nat) (k : Nat) (rs : List RowC)
      (hj : ∀ l ∈ junk, CluJunk l) (hx : ∀ b, ∀ l ∈ (extra b).1, BlankStart l)
      (hk : ∀ r ∈ rs, r.2.length = k + 1) (hn : ∀ r ∈ rs, NmOK' r.1) (hne : rs ≠ [])
      (hcn : ∀ l ∈ title :: (junk ++ cluPres extra (k + 1) 0 rs), ∀ b ∈ l, isCntrl b = false)
      (hfirst : title.length ≠ 1)
      (hdet : detectFormat (title :: (junk ++ cluPres extra (k + 1) 0 rs)) = 3) :
      Presents (emit (title :: (junk ++ cluPres extra (k + 1) 0 rs))) (rs.map recOf)
  | msf (hdr : List HdrLine) (sep : Bytes) (junk : List Bytes) (extra : Nat → List Bytes × Nat) (k : Nat)
      (rs : List RowC) (hv : ∀ x ∈ hdr, x.Valid) (hsep : hasSub (ascii "//") sep = true)
      (hj : ∀ l ∈ junk, CluJunk l) (hx : ∀ b, ∀ l ∈ (extra b).1, BlankStart l)
      (hk : ∀ r ∈ rs, r.2.length = k) (hnames : hdrNames hdr = rs.map (·.1)) (hne : rs ≠ [])
      (hcn : ∀ l ∈ hdr.map (·.1) ++ sep :: (junk ++ msfPres extra k 0 rs), ∀ b ∈ l, isCntrl b = false)
      (hfirst : ∀ l ls, hdr.map (·.1) ++ sep :: (junk ++ msfPres extra k 0 rs) = l :: ls → l.length ≠ 1)
      (hdet : detectFormat (hdr.map (·.1) ++ sep :: (junk ++ msfPres extra k 0 rs)) = 2) :
      Presents (emit (hdr.map (·.1) ++ sep :: (junk ++ msfPres extra k 0 rs))) (rs.map recOf)

theorem fileReads_of_lines (lines : List Bytes) (S : List SeqRec) (t : Int)
    (hcn : ∀ l ∈ lines, ∀ b ∈ l, isCntrl b = false) (hne : lines ≠ [])
    (hfirst : ∀ l ls, lines = l :: ls → l.length ≠ 1) (hdet : detectFormat lines = t) (ht : t ≠ -1)
    (hread : readAs t lines = some S) (hS : S ≠ []) : FileReads (emit lines) S := by
  obtain ⟨l, ls, rfl⟩ := exists_cons_of_ne_nil hne
  exact ⟨⟨l, ls, t, splitLines_emit _ hcn, hfirst l ls rfl, hdet, ht, hread⟩, hS⟩

theorem Presents.reads {file : Bytes} {S : List SeqRec} (h : Presents file S) : FileReads file S := by
  cases h with
  | fasta pre recs hpre h62 hne hcn hfirst hdet =>
    refine fileReads_of_lines _ _ 1 hcn ?_ hfirst hdet (by decide) ?_ (by simpa using hne)
    · obtain ⟨r, rs, rfl⟩ := exists_cons_of_ne_nil hne
      simp [faPres]
    · have := read_fasta_presentation pre recs hpre h62
      simp only [readAs]
      rw [this]; rfl
  | clu title junk extra k rs hj hx hk hn hne hcn hfirst hdet =>
    refine fileReads_of_lines _ _ 3 hcn (by simp) ?_ hdet (by decide) ?_ (by simpa using hne)
    · intro l ls h; simp only [cons.injEq] at h; rw [← h.1]; exact hfirst
    · have := read_clu_presentation title junk extra k rs hj hx hk hn
      simp only [readAs]
      rw [this]; rfl
  | msf hdr sep junk extra k rs hv hsep hj hx hk hnames hne hcn hfirst hdet =>
    refine fileReads_of_lines _ _ 2 hcn (by simp) hfirst hdet (by decide) ?_ (by simpa using hne)
    have := read_msf_presentation hdr hv sep hsep junk hj extra hx k rs hk hnames
    simp only [readAs]
    rw [this]; rfl

theorem Presents.gapsWF {file : Bytes} {S : List SeqRec} (h : Presents file S) : GapsWF S := by
  cases h <;> exact recOf_gapsWF _

/-- every file presents its part of the records -/
inductive AllPresent : List Bytes → List (List SeqRec) → Prop
  | nil : AllPresent [] []
  | cons {f S fs Ss} : Presents f S → AllPresent fs Ss → AllPresent (f :: fs) (S :: Ss)

theorem AllPresent.reads {files : List Bytes} {Ss : List (List SeqRec)} (h : AllPresent files Ss) :
    AllReads files Ss := by
  induction h with
  | nil => exact .nil
  | cons h _ ih => exact .cons h.reads ih

theorem AllPresent.gapsWF {files : List Bytes} {Ss : List (List SeqRec)} (h : AllPresent files Ss) :
    GapsWF Ss.flatten := by
  induction h with
  | nil => intro s hs; simp at hs
  | cons h _ ih =>
    intro s hs
    simp only [flatten_cons, mem_append] at hs
    rcases hs with hs | hs
    · exact h.gapsWF s hs
    · exact ih s hs

/-- **records split over k ≥ 1 input files** (FASTA, Clustal or MSF presentations, in any mixture).  `ClassOK none Ss` is
the recorded finding C04-split-class kept as an explicit hypothesis: each further file's own detected class equals
the class of the files accumulated before it (otherwise `merge_msa` rejects the input).  Then `readInputs` succeeds
with all sequences in file order; status and class are those computed from all sequences together; `L` stays 255. -/
theorem read_split_files (files : List Bytes) (Ss : List (List SeqRec)) (hne : files ≠ [])
    (hp : AllPresent files Ss) (hc : ClassOK none Ss) :
    ∃ m b, readInputs none files = .ok m ∧ m = finishMsa Ss.flatten b 255 ∧
      m.seqs = Ss.flatten ∧ m.aligned = detectAligned Ss.flatten ∧ m.L = 255 ∧
      m.biotype = (detectAlphabet (letterFreq Ss.flatten) b 255).1 := by
  have h := readInputs_split files Ss none hp.reads hc
  cases hp with
  | nil => exact absurd rfl hne
  | @cons f S fs Ss' hf hrest =>
    obtain ⟨b, hb⟩ := accum_shape Ss' S 2
    simp only [accum, mergeStep] at h
    rw [hb] at h
    exact ⟨_, b, h, by simp, by rw [finishMsa_seqs]; simp, by rw [finishMsa_aligned]; simp,
      finishMsa_L _ _, by rw [finishMsa_biotype]; simp⟩

/-- `dealign_msa` (applied by `kalign_run` unless the status is UNALIGNED, in which case there are no gaps anyway)
forgets the gap vectors: two results with the same names and residues enter the aligner with the same sequences -/
theorem dealign_forgets_gaps (S1 S2 : List SeqRec) (w1 : GapsWF S1) (w2 : GapsWF S2)
    (h : namesRes S1 = namesRes S2) (b1 L1 b2 L2 : Nat) :
    (runDealign (finishMsa S1 b1 L1)).seqs = (runDealign (finishMsa S2 b2 L2)).seqs ∧
    (runDealign (finishMsa S1 b1 L1)).aligned = 1 ∧ (runDealign (finishMsa S2 b2 L2)).aligned = 1 ∧
    ∀ s ∈ (runDealign (finishMsa S1 b1 L1)).seqs, ∀ g ∈ s.gaps, g = 0 := by
  rw [runDealign_finish S1 w1, runDealign_finish S2 w2]
  refine ⟨dealignSeq_congr S1 S2 h, rfl, rfl, ?_⟩
  intro s hs g hg
  simp only [mem_map] at hs
  obtain ⟨s0, _, rfl⟩ := hs
  exact (mem_replicate.mp hg).2

/-- **the split input is the one-file input as far as `kalign_run` can tell**: if the one-file presentation `one` of
the same names and residues has a definite class (DNA or protein), then both readings succeed with the same names and
residues in the same order, the same letter histogram, class and `L`, and — after the `dealign_msa` step of
`kalign_run` — identical msa contents.  (The gap vectors and hence the status before that step may differ.) -/
theorem split_same_as_one_file (files : List Bytes) (Ss : List (List SeqRec)) (hne : files ≠ [])
    (hp : AllPresent files Ss) (hc : ClassOK none Ss) (one : Bytes) (S1 : List SeqRec) (h1 : Presents one S1)
    (hsame : namesRes S1 = namesRes Ss.flatten) (hdef : (finishMsa S1 2 255).biotype ≠ 2) :
    ∃ m m1, readInputs none files = .ok m ∧ readInputs none [one] = .ok m1 ∧
      namesRes m.seqs = namesRes m1.seqs ∧ letterFreq m.seqs = letterFreq m1.seqs ∧
      m.biotype = m1.biotype ∧ m.L = m1.L ∧ runDealign m = runDealign m1 := by
  obtain ⟨m, b, hm, hmeq, hseqs, _, hL, hbio⟩ := read_split_files files Ss hne hp hc
  have hone : readInputs none [one] = .ok (finishMsa S1 2 255) := by
    have := readInputs_split [one] [S1] none (.cons h1.reads .nil) ⟨trivial, trivial⟩
    simpa [accum, mergeStep] using this
  have hres : S1.map (·.res) = Ss.flatten.map (·.res) := by
    have := congrArg (fun l => l.map Prod.snd) hsame
    simpa [namesRes, Function.comp_def] using this
  have hlf : letterFreq Ss.flatten = letterFreq S1 := (letterFreq_depends_on_residues S1 _ hres).symm
  have hd : detectAlphabet (letterFreq Ss.flatten) b 255 = detectAlphabet (letterFreq S1) 2 255 := by
    rw [hlf]
    exact detectAlphabet_definite _ 255 (by rw [← finishMsa_biotype]; exact hdef) b
  have hb : m.biotype = (finishMsa S1 2 255).biotype := by
    rw [hbio, hd, finishMsa_biotype]
  refine ⟨m, finishMsa S1 2 255, hm, hone, ?_, ?_, hb, ?_, ?_⟩
  · rw [hseqs, finishMsa_seqs]; exact hsame.symm
  · rw [hseqs, finishMsa_seqs]; exact hlf
  · rw [hL, finishMsa_L]
  · rw [hmeq, runDealign_finish _ hp.gapsWF, runDealign_finish _ h1.gapsWF]
    rw [dealignSeq_congr _ _ hsame.symm]
    rw [← hmeq, hb, hL, finishMsa_L]

/-- non-vacuity of `read_split_files` / `split_same_as_one_file`: two FASTA files (different line widths) whose records
have the same residues, so that the class hypothesis holds without evaluating the floating-point scores -/
example :
    let f1 := emit ([] ++ faPres [(ascii "a", [ascii "AC-GT"])])
    let f2 := emit ([] ++ faPres [(ascii "b", [ascii "AC", ascii "G.T"])])
    AllPresent [f1, f2] [[recOf (ascii "a", [ascii "AC-GT"])], [recOf (ascii "b", [ascii "AC", ascii "G.T"])]] ∧
    ClassOK none [[recOf (ascii "a", [ascii "AC-GT"])], [recOf (ascii "b", [ascii "AC", ascii "G.T"])]] := by
  intro f1 f2
  constructor
  · refine .cons ?_ (.cons ?_ .nil)
    · exact Presents.fasta [] [(ascii "a", [ascii "AC-GT"])] (by simp) (by decide) (by decide) (by decide)
        (by intro l ls h; simp only [faPres, flatMap_cons, flatMap_nil, nil_append, append_nil, cons.injEq] at h
            rw [← h.1]; decide) (by decide)
    · exact Presents.fasta [] [(ascii "b", [ascii "AC", ascii "G.T"])] (by simp) (by decide) (by decide) (by decide)
        (by intro l ls h; simp only [faPres, flatMap_cons, flatMap_nil, nil_append, append_nil, cons.injEq] at h
            rw [← h.1]; decide) (by decide)
  · refine ⟨trivial, Or.inr ?_, trivial⟩
    simp only [mergeStep]
    rw [finishMsa_biotype, finishMsa_biotype]
    rw [letterFreq_depends_on_residues _ [recOf (ascii "b", [ascii "AC", ascii "G.T"])] (by decide)]

end Kalign.IO
