import KalignModel.Lemmas.IO.PresentMsf
/-!
# C04 (reader part) — the result of reading depends only on names and residues

* `scanner_spec`: the scanner shared by the three readers keeps the letters, counts punctuation bytes as gaps (any
  `ispunct` glyph) and skips everything else (blanks, digits, bytes ≥ 128).
* `read_fasta_presentation`: FASTA text in *any* presentation — any line widths, empty lines, any gap glyphs, padding,
  digits, junk lines without letters/punctuation before the first header — is read as (name, letters of the record,
  gap vector of the record); `read_fasta_presentation_invariant`: two presentations with the same names and letters give
  the same (names, residues).
* `read_clu_presentation(_invariant)`: the same for Clustal text: any block widths, any number of empty lines between
  blocks, conservation lines, any blanks/digits/glyphs in the payload.
* `read_msf_body_presentation`: the same for the block phase of `read_msf`; the header phase is taken as a hypothesis in
  `read_msf_presentation_partial` (it is proved for the files kalign writes in `msfHeader_written`).
* `formats_agree`: FASTA and Clustal presentations of the same records give the same (names, residues);
  `letterFreq_depends_on_residues`: so do the letter histogram and the detected alphabet.
`kalign_run` discards the gap vectors (`dealign_msa`), so (names, residues) is all that reaches the aligner.
-/
namespace Kalign.IO
open List

/-- what `kalign_run` keeps of the sequences that were read -/
def namesRes (S : List SeqRec) : List (Bytes × Bytes) := S.map fun s => (s.name, s.res)

/-- the letters of a payload given as pieces -/
def letters (pieces : List Bytes) : Bytes := pieces.flatten.filter isAlpha

theorem scanner_spec (nm l : Bytes) :
    (feed (SeqAcc.new nm) l).finish = ⟨nm, l.filter isAlpha, gapVec l⟩ ∧
    (gapVec l).sum = (l.filter isPunct).length :=
  ⟨scan_spec nm l, gapVec_sum l⟩

/-! ## FASTA -/

/-- a line that `read_fasta` skips when no sequence is open: not a header, no letters, no punctuation -/
def Junk (l : Bytes) : Prop := l.head? ≠ some 62 ∧ l.any (fun b => isAlpha b || isPunct b) = false

theorem read_fasta_presentation (pre : List Bytes) (recs : List (Bytes × List Bytes))
    (hpre : ∀ l ∈ pre, Junk l) (h62 : ∀ r ∈ recs, ∀ l ∈ r.2, l.head? ≠ some 62) :
    readFasta (pre ++ faPres recs) =
      some (recs.map fun r => ⟨r.1, letters r.2, gapVec r.2.flatten⟩) := by
  unfold readFasta
  rw [faFold_junk pre _ [] hpre]
  obtain ⟨st', h1, h2⟩ := faFold_pres recs ⟨[], none⟩ h62
  rw [h1, Option.map_some, h2]
  simp only [FaState.seqs, reverse_nil, map_nil, nil_append, Option.some.injEq]
  apply map_congr_left
  intro r _
  exact scan_spec r.1 r.2.flatten

theorem read_fasta_presentation_invariant (pre1 pre2 : List Bytes) (recs1 recs2 : List (Bytes × List Bytes))
    (hpre1 : ∀ l ∈ pre1, Junk l) (hpre2 : ∀ l ∈ pre2, Junk l)
    (h1 : ∀ r ∈ recs1, ∀ l ∈ r.2, l.head? ≠ some 62) (h2 : ∀ r ∈ recs2, ∀ l ∈ r.2, l.head? ≠ some 62)
    (hsame : recs1.map (fun r => (r.1, letters r.2)) = recs2.map (fun r => (r.1, letters r.2))) :
    (readFasta (pre1 ++ faPres recs1)).map namesRes = (readFasta (pre2 ++ faPres recs2)).map namesRes := by
  rw [read_fasta_presentation pre1 recs1 hpre1 h1, read_fasta_presentation pre2 recs2 hpre2 h2]
  simp only [Option.map_some, namesRes, map_map, Function.comp_def]
  exact congrArg some hsame

/-- byte level: a text whose lines contain no control bytes is split into exactly these lines -/
theorem presentation_lines (ls : List Bytes) (h : ∀ l ∈ ls, ∀ b ∈ l, isCntrl b = false) :
    splitLines (emit ls) = ls := splitLines_emit ls h

/-! ## Clustal -/

/-- lines before the first block that change nothing: empty, or starting with a blank -/
def CluJunk (l : Bytes) : Prop := l = [] ∨ BlankStart l

theorem clu_junk (ls : List Bytes) (h : ∀ l ∈ ls, CluJunk l) : ls.foldl cluLine ⟨[], []⟩ = ⟨[], []⟩ := by
  induction ls with
  | nil => rfl
  | cons l ls ih =>
    simp only [foldl_cons]
    have : cluLine ⟨[], []⟩ l = ⟨[], []⟩ := by
      rcases h l (by simp) with rfl | ⟨b, t, hl, hb⟩
      · rfl
      · exact cluLine_blankStart _ l b t hl hb
    rw [this]; exact ih (fun x hx => h x (by simp [hx]))

/-- Clustal text: a title line, junk, then `k + 1` blocks (`cluPres`): every row `r` of `rs` contributes one line
`name␣payload` per block, `r.2` lists its payloads; `extra b` = conservation lines and additional empty lines of block `b` -/
theorem read_clu_presentation (title : Bytes) (junk : List Bytes) (extra : Nat → List Bytes × Nat) (k : Nat)
    (rs : List RowC) (hj : ∀ l ∈ junk, CluJunk l) (hx : ∀ b, ∀ l ∈ (extra b).1, BlankStart l)
    (hk : ∀ r ∈ rs, r.2.length = k + 1) (hn : ∀ r ∈ rs, NmOK' r.1) :
    readClu (title :: (junk ++ cluPres extra (k + 1) 0 rs)) =
      rs.map fun r => ⟨r.1, letters r.2, gapVec r.2.flatten⟩ := by
  simp only [readClu, drop_succ_cons, drop_zero, foldl_append]
  rw [clu_junk junk hj, clu_pres_all extra hx k rs hk hn]
  simp only [Blk.seqs, reverse_nil, nil_append, map_map]
  apply map_congr_left
  intro r _
  exact scan_spec r.1 r.2.flatten

theorem read_clu_presentation_invariant (t1 t2 : Bytes) (j1 j2 : List Bytes) (x1 x2 : Nat → List Bytes × Nat)
    (k1 k2 : Nat) (rs1 rs2 : List RowC)
    (hj1 : ∀ l ∈ j1, CluJunk l) (hj2 : ∀ l ∈ j2, CluJunk l)
    (hx1 : ∀ b, ∀ l ∈ (x1 b).1, BlankStart l) (hx2 : ∀ b, ∀ l ∈ (x2 b).1, BlankStart l)
    (hk1 : ∀ r ∈ rs1, r.2.length = k1 + 1) (hk2 : ∀ r ∈ rs2, r.2.length = k2 + 1)
    (hn1 : ∀ r ∈ rs1, NmOK' r.1) (hn2 : ∀ r ∈ rs2, NmOK' r.1)
    (hsame : rs1.map (fun r => (r.1, letters r.2)) = rs2.map (fun r => (r.1, letters r.2))) :
    namesRes (readClu (t1 :: (j1 ++ cluPres x1 (k1 + 1) 0 rs1))) =
      namesRes (readClu (t2 :: (j2 ++ cluPres x2 (k2 + 1) 0 rs2))) := by
  rw [read_clu_presentation t1 j1 x1 k1 rs1 hj1 hx1 hk1 hn1, read_clu_presentation t2 j2 x2 k2 rs2 hj2 hx2 hk2 hn2]
  simp only [namesRes, map_map, Function.comp_def]
  exact hsame

/-- FASTA and Clustal presentations of the same records are read as the same (names, residues) -/
theorem formats_agree (pre : List Bytes) (recs : List (Bytes × List Bytes)) (title : Bytes) (junk : List Bytes)
    (extra : Nat → List Bytes × Nat) (k : Nat) (rs : List RowC)
    (hpre : ∀ l ∈ pre, Junk l) (h62 : ∀ r ∈ recs, ∀ l ∈ r.2, l.head? ≠ some 62)
    (hj : ∀ l ∈ junk, CluJunk l) (hx : ∀ b, ∀ l ∈ (extra b).1, BlankStart l)
    (hk : ∀ r ∈ rs, r.2.length = k + 1) (hn : ∀ r ∈ rs, NmOK' r.1)
    (hsame : recs.map (fun r => (r.1, letters r.2)) = rs.map (fun r => (r.1, letters r.2))) :
    (readFasta (pre ++ faPres recs)).map namesRes =
      some (namesRes (readClu (title :: (junk ++ cluPres extra (k + 1) 0 rs)))) := by
  rw [read_fasta_presentation pre recs hpre h62, read_clu_presentation title junk extra k rs hj hx hk hn]
  simp only [Option.map_some, namesRes, map_map, Function.comp_def]
  exact congrArg some hsame

/-! ## MSF -/

/-- the block phase of `read_msf`: `names` are the sequences created by the header, the body is one empty line, then
`k` blocks in which every row is its name immediately followed by the payload -/
theorem msf_junk (junk ls : List Bytes) (h : ∀ l ∈ junk, CluJunk l) (rest : List SeqAcc) :
    msfFold ⟨[], rest⟩ (junk ++ ls) = msfFold ⟨[], rest⟩ ls := by
  induction junk with
  | nil => rfl
  | cons l js ih =>
    rw [cons_append]
    rcases h l (by simp) with rfl | ⟨b, t, hl, hb⟩
    · rw [msfFold_cons _ ⟨[], rest⟩ [] _ (by simp [msfLine, Blk.rewind])]
      exact ih (fun x hx => h x (by simp [hx]))
    · rw [msfFold_cons _ ⟨[], rest⟩ l _ (by subst hl; simp [msfLine, hb])]
      exact ih (fun x hx => h x (by simp [hx]))

theorem read_msf_body_presentation (junk : List Bytes) (hj : ∀ l ∈ junk, CluJunk l)
    (extra : Nat → List Bytes × Nat) (hx : ∀ b, ∀ l ∈ (extra b).1, BlankStart l)
    (k : Nat) (rs : List RowC) (hk : ∀ r ∈ rs, r.2.length = k) (hn : ∀ r ∈ rs, StartsNonBlank r.1) :
    (msfFold ⟨[], rs.map fun r => SeqAcc.new r.1⟩ (junk ++ msfPres extra k 0 rs)).map Blk.seqs =
      some (rs.map fun r => ⟨r.1, letters r.2, gapVec r.2.flatten⟩) := by
  rw [msf_junk junk _ hj]
  let ps : List Prog := rs.map fun r => (r.1, [], r.2)
  have h1 : (rs.map fun r => SeqAcc.new r.1) = ps.map Prog.acc := by
    simp [ps, Prog.acc, feed_nil]
  have h2 : rs = ps.map Prog.row := by
    simp only [ps, map_map]
    conv => lhs; rw [← map_id rs]
    apply map_congr_left
    intro r _; rfl
  rw [h1]
  conv => lhs; rw [h2]
  rw [msf_pres_blocks extra hx k 0 ps]
  · simp only [Option.map_some, Blk.seqs, reverse_nil, nil_append, Option.some.injEq, ps, map_map]
    apply map_congr_left
    intro r _
    simp only [Function.comp, Prog.final, nil_append]
    exact scan_spec r.1 r.2.flatten
  · intro p hp
    simp only [ps, mem_map] at hp
    obtain ⟨r, hr, rfl⟩ := hp
    exact hk r hr
  · intro p hp
    simp only [ps, mem_map] at hp
    obtain ⟨r, hr, rfl⟩ := hp
    exact hn r hr

/-
Full statement (not proved): for every header `hdr` made of lines without `//` that either lack `Name:`/`Len:` or have
the form `… Name: <name> … Len: …`, followed by a line containing `//`,
  `readMsf (hdr ++ sep :: junk ++ msfPres extra k 0 rs) = some (rs.map fun r => ⟨r.1, letters r.2, gapVec r.2.flatten⟩)`.
The header phase is the explicit hypothesis `hhdr` below; it is proved for the headers kalign writes
(`msfHeader_written`, used by `msf_roundtrip` in C06).
-/
theorem read_msf_presentation_partial (lines junk : List Bytes) (hj : ∀ l ∈ junk, CluJunk l)
    (extra : Nat → List Bytes × Nat)
    (hx : ∀ b, ∀ l ∈ (extra b).1, BlankStart l) (k : Nat) (rs : List RowC)
    (hk : ∀ r ∈ rs, r.2.length = k) (hn : ∀ r ∈ rs, StartsNonBlank r.1)
    (hhdr : msfHeader lines [] = (rs.map fun r => SeqAcc.new r.1, junk ++ msfPres extra k 0 rs)) :
    readMsf lines = some (rs.map fun r => ⟨r.1, letters r.2, gapVec r.2.flatten⟩) := by
  unfold readMsf
  rw [hhdr]
  exact read_msf_body_presentation junk hj extra hx k rs hk hn

/-! ## what else depends on the residues only -/

theorem letterFreq_depends_on_residues (S1 S2 : List SeqRec) (h : S1.map (·.res) = S2.map (·.res)) :
    letterFreq S1 = letterFreq S2 := by
  have key : ∀ (S : List SeqRec) (init : Array Nat),
      S.foldl (fun h s => s.res.foldl (fun h b => h.modify b.toNat (· + 1)) h) init =
      (S.map (·.res)).foldl (fun h r => r.foldl (fun h b => h.modify b.toNat (· + 1)) h) init := by
    intro S
    induction S with
    | nil => intro init; rfl
    | cons s ss ih => intro init; simp only [foldl_cons, map_cons]; exact ih _
  unfold letterFreq
  rw [key S1, key S2, h]

/-- same residues ⇒ same detected alphabet (`detect_alphabet` looks at `letter_freq` only) -/
theorem biotype_depends_on_residues (S1 S2 : List SeqRec) (h : S1.map (·.res) = S2.map (·.res)) (bio L : Nat) :
    detectAlphabet (letterFreq S1) bio L = detectAlphabet (letterFreq S2) bio L := by
  rw [letterFreq_depends_on_residues S1 S2 h]

/-- non-vacuity: two different presentations of the same two records (other widths, `.` and `~` as gap glyphs, an empty
line, padding, digits) satisfy the hypotheses of `read_fasta_presentation_invariant` -/
example :
    let r1 : List (Bytes × List Bytes) := [(ascii "a", [ascii "AC-GT"]), (ascii "b x", [ascii "A--GT"])]
    let r2 : List (Bytes × List Bytes) := [(ascii "a", [ascii " AC", [], ascii ".G 10", ascii "T"]), (ascii "b x", [ascii "A~~", ascii "GT  "])]
    (∀ r ∈ r1, ∀ l ∈ r.2, l.head? ≠ some 62) ∧ (∀ r ∈ r2, ∀ l ∈ r.2, l.head? ≠ some 62) ∧
    r1.map (fun r => (r.1, letters r.2)) = r2.map (fun r => (r.1, letters r.2)) := by decide

/-- non-vacuity of the Clustal hypotheses: two rows in two blocks, a conservation line, extra empty lines -/
example :
    let rs : List RowC := [(ascii "s1", [ascii "  AC-", ascii " GT 5"]), (ascii "a|b", [ascii "A.~", ascii "GT"])]
    let extra : Nat → List Bytes × Nat := fun b => if b = 0 then ([ascii "    **"], 2) else ([], 0)
    (∀ r ∈ rs, r.2.length = 1 + 1) ∧ (∀ r ∈ rs, r.1 ≠ [] ∧ r.1.length ≤ 200 ∧ ∀ b ∈ r.1, isSpace b = false) ∧
    (∀ l ∈ (extra 0).1, l.head?.map isSpace = some true) := by decide

end Kalign.IO
