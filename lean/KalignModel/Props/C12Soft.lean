import KalignModel.Lemmas.C12SoftDist
import KalignModel.Props.SoftFloat
import KalignModel.Props.C12
/-!
# C12 (guide-tree part) on binary32 — all copies of a sequence form one clade of the UPGMA tree the code really computes

`Props/C12.lean` proves the clade statement over exact arithmetic (`upgmaExact` over `distExact`); the C code computes distances and
UPGMA in binary32.  This module proves the same statement for `distMatrixS`, `upgmaS`, `guideTreeS`, `smallTreeS`
(Model/TreeSoft.lean), the `SoftF32` twins that are tied **bit for bit** to the C routines `d_estimation`, `upgma`,
`build_tree_kmeans` by the correspondence ops `dist_matrix_soft`, `upgma_soft`, `tree_soft` and to the whole program by
`kalign_sys_soft2`.  It replaces the measured agreement "A-float, margin 0.4" by a theorem.

* **`C12Soft_entry_sep`** (item 1): in the binary32 matrix the entry between two copies of `S` *is* the length term
  `L0 = (float)min(10000,|S|) / 10000.0F` (`(float)0 + L0 = L0` exactly), and every entry between a copy and a sequence `T` satisfying
  the non-containment premise on 1024-prefixes is at least `1.0F`; `L0 < 1.0F` for `|S| < 10000`.
  **`C12Soft_entry_sep_grid`**: the sharper bounds used below, in units of 2⁻²⁰: copies `≤ ⌊m·2²⁰/10000⌋ + 2` with `m = min 10000 |S|`,
  the rest `≥ 2²⁰ + ⌊m'·2²⁰/10000⌋ − 1` with `m' = min 10000 (|S|/2)` (the length term of a pair `(S, T)` is at least the one of
  `(S, empty)`).  The gap is at least `524000·2⁻²⁰ ≈ 0.4997` for **every** length of `S` — no length restriction is needed
  (the gap `1 − L0` of the plain statement would be too small for `|S|` near 10000).
* **`C12Soft_upgma_clade`** (item 2): `upgmaS` on any matrix (entries finite, at most 2³³) in which the entries inside a set `C` are at
  most `A0·2⁻²⁰` in magnitude and the entries between `C` and its complement are at least `B0·2⁻²⁰`, with
  **`A0 + 1049·n ≤ B0 < 2²³`** (`n` leaves; `1049·2⁻²⁰ ≈ 0.0010004 ≥ 0.001F`), returns a tree with a subtree whose leaves are exactly `C`.
  The proof is rounding-exact, not an error estimate: every bound `(A0 + 1049·k)·2⁻²⁰`, `B0·2⁻²⁰` is itself a binary32 number, a sum
  bounded by a binary32 number rounds to at most that number (round-to-nearest is monotone), `x * 0.5F` of a bounded `x` is bounded by
  the half, so after `k` rounds entries inside the unmerged part of `C` are `≤ (A0 + 1049·k)·2⁻²⁰` and entries from `C` to outsiders
  stay `≥ B0·2⁻²⁰`.  `C12Soft_upgma_clade_100`: `n < 100`, margin `B0 − A0 ≥ 103851` (`≈ 0.09904`).
  **`C12Soft_upgma_clade_le`**: the same with binary32 thresholds `a`, `b` and the comparisons of the code:
  entries inside `C` in `[0, a]`, entries across `≥ b`, `b − a ≥ 103853·2⁻²⁰ ≈ 0.099042`, `b < 8`, `n < 100`.
* **`C12Soft_copies_form_clade`** (item 3): fewer than 100 sequences over the 13-letter alphabet, `S` occurs among them, the
  non-containment premise on 1024-prefixes ⟹ `guideTreeS` (binary32 distances, binary32 UPGMA) returns a tree with a subtree whose
  leaves are exactly the positions of the copies of `S`.  `C12Soft_smallTree_clade`: the same for `Pipeline.smallTreeS codes samples`
  (the `< 100` branch of `bisecting_kmeans` as the pipeline `kalignRunSoft2` calls it), with `Tree.Sub`.
* non-vacuity (item 4): six sequences with a triplicated one, hypotheses by `decide`, the tree by `decide +kernel`.
-/
set_option exponentiation.threshold 512
namespace Kalign
open SoftF32

/-! ## item 1: the two classes of entries -/

theorem getD_of_getElem? {seqs : List (List Nat)} {i : Nat} {S : List Nat} (h : seqs[i]? = some S) : seqs.getD i [] = S := by
  rw [List.getD_eq_getElem?_getD, h]; rfl

theorem getD_ne_of_getElem? {seqs : List (List Nat)} {i : Nat} {S : List Nat} (hi : i < seqs.length) (h : seqs[i]? ≠ some S) :
    seqs.getD i [] ≠ S := by
  intro e
  apply h
  rw [List.getD_eq_getElem?_getD, List.getElem?_eq_getElem hi] at e
  rw [List.getElem?_eq_getElem hi]
  simpa using e

theorem toInt_one : toInt SoftF32.one = ((2 ^ 149 : Nat) : Int) := by decide

/-- **item 1.**  `M i j` = the entry `upgmaS` reads.  Copies of `S` are at distance exactly `L0 = lenTermS |S| |S|` from each other;
every sequence satisfying the non-containment premise is at distance at least `1.0F` from every copy (both orders);
`L0 < 1.0F` when `|S| < 10000`. -/
theorem C12Soft_entry_sep (seqs : List (List Nat)) (S : List Nat) (hsym : ∀ s ∈ seqs, ∀ c ∈ s, c < 13) (hS : S ∈ seqs)
    (hno : ∀ T ∈ seqs, T ≠ S → ¬ (T.take 1024 <:+: S) ∧ ¬ (S.take 1024 <:+: T))
    (dm : List (List SoftF32)) (hdm : distMatrixS seqs = some dm) :
    (∀ i j, i < seqs.length → j < seqs.length → seqs[i]? = some S → seqs[j]? = some S →
      FMatS.get ((dm.map List.toArray).toArray) i j = lenTermS S.length S.length) ∧
    (∀ i z, i < seqs.length → z < seqs.length → seqs[i]? = some S → seqs[z]? ≠ some S →
      SoftF32.le SoftF32.one (FMatS.get ((dm.map List.toArray).toArray) i z) = true ∧
      SoftF32.le SoftF32.one (FMatS.get ((dm.map List.toArray).toArray) z i) = true) ∧
    (S.length < 10000 → SoftF32.lt (lenTermS S.length S.length) SoftF32.one = true) := by
  refine ⟨?_, ?_, ?_⟩
  · intro i j hi hj ei ej
    obtain ⟨d, hd, hg⟩ := distMatrixS_same seqs S dm hdm i j hi hj (getD_of_getElem? ei) (getD_of_getElem? ej)
    rw [hg]
    unfold distEntryS calcDistanceS at hd
    rw [dist_zero_of_equal S (hsym S hS)] at hd
    simp only [Option.map_some, Option.some.injEq] at hd
    subst hd
    rw [lenTermS_eq, show (S.length + S.length) / 2 = S.length by omega]
    obtain ⟨q1, q2, _, _⟩ := lenQ_spec (j := min 10000 S.length) (by omega)
    have hf : (lenQ (min 10000 S.length)).isFinite = true := (isFinite_iff _).2 q2
    have h0 : SoftF32.ofNat 0 = SoftF32.zero := by decide
    rw [h0, SoftF32.add_comm (by decide) (isNaN_of_finite hf)]
    apply SoftF32.add_zero hf
    intro e
    rw [e] at q1
    exact absurd q1 (by decide)
  · intro i z hi hz ei ez
    obtain ⟨a, b, d0, d, _, h0, h1, hd, hg, hg'⟩ :=
      distMatrixS_cross seqs S hsym hS hno dm hdm i z hi hz (getD_of_getElem? ei) (getD_ne_of_getElem? hz ez)
    rw [hg, hg']
    have hfin := (distEntryS_absLe hd).finite
    have h2 := entry_cross h0 h1 hd
    have : SoftF32.le SoftF32.one d = true := by
      rw [SoftF32.le_iff_toInt (by decide) (isNaN_of_finite hfin), toInt_one]
      have h3 : 2 ^ 149 ≤ (1048576 + lenLo (min 10000 ((a.length + b.length) / 2))) * 2 ^ 129 := by
        rw [← pow149]
        exact Nat.mul_le_mul_right _ (by omega)
      exact Int.le_trans (Int.ofNat_le.2 h3) h2
    exact ⟨this, this⟩
  · intro hlen
    obtain ⟨_, q2, _, q4⟩ := lenQ_spec (j := min 10000 S.length) (by omega)
    rw [lenTermS_eq, show (S.length + S.length) / 2 = S.length by omega]
    have hq : AbsV (lenQ (min 10000 S.length)) (lenHi (min 10000 S.length) * 2 ^ 129) := ⟨q2, q4⟩
    rw [SoftF32.lt_iff_toInt (isNaN_of_finite hq.finite) (by decide), toInt_one]
    have h1 := hq.toInt_le
    have h3 : lenHi (min 10000 S.length) * 2 ^ 129 < 2 ^ 149 := by
      rw [← pow149]
      exact Nat.mul_lt_mul_of_pos_right (by unfold lenHi; omega) (Nat.pow_pos (by decide))
    have := Int.ofNat_lt.2 h3
    omega

/-- **item 1, on the grid 2⁻²⁰** (what the clade theorem consumes; valid for every length of `S`) -/
theorem C12Soft_entry_sep_grid (seqs : List (List Nat)) (S : List Nat) (hsym : ∀ s ∈ seqs, ∀ c ∈ s, c < 13) (hS : S ∈ seqs)
    (hno : ∀ T ∈ seqs, T ≠ S → ¬ (T.take 1024 <:+: S) ∧ ¬ (S.take 1024 <:+: T))
    (dm : List (List SoftF32)) (hdm : distMatrixS seqs = some dm) :
    (∀ i j, i < seqs.length → j < seqs.length → seqs[i]? = some S → seqs[j]? = some S →
      AbsV (FMatS.get ((dm.map List.toArray).toArray) i j) (lenHi (min 10000 S.length) * 2 ^ 129)) ∧
    (∀ i z, i < seqs.length → z < seqs.length → seqs[i]? = some S → seqs[z]? ≠ some S →
      (((1048576 + lenLo (min 10000 (S.length / 2))) * 2 ^ 129 : Nat) : Int) ≤ toInt (FMatS.get ((dm.map List.toArray).toArray) i z) ∧
      (((1048576 + lenLo (min 10000 (S.length / 2))) * 2 ^ 129 : Nat) : Int) ≤ toInt (FMatS.get ((dm.map List.toArray).toArray) z i)) ∧
    lenHi (min 10000 S.length) + 524000 ≤ 1048576 + lenLo (min 10000 (S.length / 2)) :=
  ⟨fun i j hi hj ei ej => distMatrixS_same_grid seqs S hsym hS dm hdm i j hi hj (getD_of_getElem? ei) (getD_of_getElem? ej),
   fun i z hi hz ei ez =>
     distMatrixS_cross_grid seqs S hsym hS hno dm hdm i z hi hz (getD_of_getElem? ei) (getD_ne_of_getElem? hz ez),
   by unfold lenHi lenLo; omega⟩

/-! ## item 2: the clade theorem for the binary32 UPGMA -/

/-- **item 2.**  `c` marks the labels of `C`; `M = (upgmaInitS dm samples).dm` is the matrix as `upgmaS` reads it (missing entries
read as `0.0F`).  Margin: `A0 + 1049·n ≤ B0 < 2²³` in units of 2⁻²⁰. -/
theorem C12Soft_upgma_clade (dm : List (List SoftF32)) (samples : List Nat) (c : Nat → Bool) (A0 B0 : Nat)
    (hB : B0 < 8388608) (hm : A0 + 1049 * samples.length ≤ B0)
    (hC : ∃ x, x ∈ samples ∧ c x = true)
    (hbnd : ∀ r ∈ dm, ∀ x ∈ r, absLe x (2 ^ 33))
    (hcc : ∀ i j (hi : i < samples.length) (hj : j < samples.length), i ≠ j → c samples[i] = true → c samples[j] = true →
      AbsV ((upgmaInitS dm samples).dm.get i j) (A0 * 2 ^ 129))
    (hcr : ∀ i z (hi : i < samples.length) (hz : z < samples.length), c samples[i] = true → c samples[z] = false →
      ((B0 * 2 ^ 129 : Nat) : Int) ≤ toInt ((upgmaInitS dm samples).dm.get i z) ∧
      ((B0 * 2 ^ 129 : Nat) : Int) ≤ toInt ((upgmaInitS dm samples).dm.get z i)) :
    ∃ T, upgmaS dm samples = some T ∧ ∃ u ∈ T.subtrees, ∀ x, x ∈ u.leaves ↔ (x ∈ samples ∧ c x = true) :=
  upgmaS_clade dm samples c A0 B0 hB hm hC
    (matBnd_of_rows _ dm (fun r hr x hx => (hbnd r hr x hx).mono (by unfold upgBnd; decide))) hcc hcr

/-- fewer than 100 leaves: a margin of `103851·2⁻²⁰ ≈ 0.09904` suffices -/
theorem C12Soft_upgma_clade_100 (dm : List (List SoftF32)) (samples : List Nat) (hn : samples.length < 100) (c : Nat → Bool)
    (A0 B0 : Nat) (hB : B0 < 8388608) (hm : A0 + 103851 ≤ B0)
    (hC : ∃ x, x ∈ samples ∧ c x = true)
    (hbnd : ∀ r ∈ dm, ∀ x ∈ r, absLe x (2 ^ 33))
    (hcc : ∀ i j (hi : i < samples.length) (hj : j < samples.length), i ≠ j → c samples[i] = true → c samples[j] = true →
      AbsV ((upgmaInitS dm samples).dm.get i j) (A0 * 2 ^ 129))
    (hcr : ∀ i z (hi : i < samples.length) (hz : z < samples.length), c samples[i] = true → c samples[z] = false →
      ((B0 * 2 ^ 129 : Nat) : Int) ≤ toInt ((upgmaInitS dm samples).dm.get i z) ∧
      ((B0 * 2 ^ 129 : Nat) : Int) ≤ toInt ((upgmaInitS dm samples).dm.get z i)) :
    ∃ T, upgmaS dm samples = some T ∧ ∃ u ∈ T.subtrees, ∀ x, x ∈ u.leaves ↔ (x ∈ samples ∧ c x = true) :=
  C12Soft_upgma_clade dm samples c A0 B0 hB (by omega) hC hbnd hcc hcr

/-- **item 2 with binary32 thresholds and the comparisons of the code**: entries inside `C` are in `[0, a]`, entries between `C` and
the rest are `≥ b`, where `b − a ≥ 103853·2⁻²⁰ ≈ 0.099042` and `b < 8`; fewer than 100 leaves -/
theorem C12Soft_upgma_clade_le (dm : List (List SoftF32)) (samples : List Nat) (hn : samples.length < 100) (c : Nat → Bool)
    (a b : SoftF32) (has : a.sign = false) (hb8 : toInt b < ((2 ^ 152 : Nat) : Int))
    (hgap : toInt a + ((103853 * 2 ^ 129 : Nat) : Int) ≤ toInt b)
    (hC : ∃ x, x ∈ samples ∧ c x = true)
    (hbnd : ∀ r ∈ dm, ∀ x ∈ r, absLe x (2 ^ 33))
    (hcc : ∀ i j (hi : i < samples.length) (hj : j < samples.length), i ≠ j → c samples[i] = true → c samples[j] = true →
      SoftF32.le SoftF32.zero ((upgmaInitS dm samples).dm.get i j) = true ∧
      SoftF32.le ((upgmaInitS dm samples).dm.get i j) a = true)
    (hcr : ∀ i z (hi : i < samples.length) (hz : z < samples.length), c samples[i] = true → c samples[z] = false →
      SoftF32.le b ((upgmaInitS dm samples).dm.get i z) = true ∧ SoftF32.le b ((upgmaInitS dm samples).dm.get z i) = true) :
    ∃ T, upgmaS dm samples = some T ∧ ∃ u ∈ T.subtrees, ∀ x, x ∈ u.leaves ↔ (x ∈ samples ∧ c x = true) := by
  have hMat : MatBnd (upgBnd 0) (upgmaInitS dm samples).dm :=
    matBnd_of_rows _ dm (fun r hr x hx => (hbnd r hr x hx).mono (by unfold upgBnd; decide))
  have hva : toInt a = (magVal a.mag : Int) := toInt_of_pos has
  have hP : 0 < 2 ^ 129 := Nat.pow_pos (by decide)
  generalize hvb : (toInt b).toNat = vb
  have hvb' : toInt b = (vb : Int) := by omega
  have hgapN : magVal a.mag + 103853 * 2 ^ 129 ≤ vb := by omega
  have hb8N : vb < 2 ^ 152 := by omega
  have hdiv : magVal a.mag / 2 ^ 129 + 103853 ≤ vb / 2 ^ 129 := by
    have := Nat.div_le_div_right (c := 2 ^ 129) hgapN
    rwa [Nat.add_mul_div_right _ _ hP] at this
  have hB : vb / 2 ^ 129 < 8388608 := by
    apply Nat.div_lt_of_lt_mul
    have : (2 : Nat) ^ 129 * 8388608 = 2 ^ 152 := by decide
    omega
  refine upgmaS_clade dm samples c (magVal a.mag / 2 ^ 129 + 1) (vb / 2 ^ 129) hB (by omega) hC hMat ?_ ?_
  · intro i j hi hj hij hci hcj
    obtain ⟨h0, h1⟩ := hcc i j hi hj hij hci hcj
    have hfin := (hMat i j).finite
    have hnn := isNaN_of_finite hfin
    rw [SoftF32.le_iff_toInt (by decide) hnn] at h0
    rw [SoftF32.le_iff_toInt hnn (by
      rw [← Bool.not_eq_true, isNaN_iff]
      intro hnan
      have : SoftF32.le ((upgmaInitS dm samples).dm.get i j) a = false := by
        simp [SoftF32.le, (isNaN_iff a).2 hnan]
      rw [this] at h1; cases h1)] at h1
    have hz : toInt SoftF32.zero = 0 := by decide
    rw [hz] at h0
    have hn' := natAbs_toInt ((upgmaInitS dm samples).dm.get i j)
    refine ⟨(hMat i j).1, ?_⟩
    have hlt : magVal a.mag < 2 ^ 129 * (magVal a.mag / 2 ^ 129 + 1) := Nat.lt_mul_div_succ _ hP
    rw [Nat.mul_comm] at hlt
    omega
  · intro i z hi hz hci hcz
    obtain ⟨h0, h1⟩ := hcr i z hi hz hci hcz
    have hbn : b.isNaN = false := by
      rw [← Bool.not_eq_true]
      intro hnan
      have : SoftF32.le b ((upgmaInitS dm samples).dm.get i z) = false := by simp [SoftF32.le, hnan]
      rw [this] at h0; cases h0
    rw [SoftF32.le_iff_toInt hbn (isNaN_of_finite (hMat i z).finite)] at h0
    rw [SoftF32.le_iff_toInt hbn (isNaN_of_finite (hMat z i).finite)] at h1
    have hle : vb / 2 ^ 129 * 2 ^ 129 ≤ vb := Nat.div_mul_le_self _ _
    have := Int.ofNat_le.2 hle
    constructor <;> omega

/-! ## item 3: the guide tree computed in binary32 -/

/-- **C12, guide tree, on the arithmetic the code performs**: fewer than 100 sequences over the 13-letter alphabet; `S` occurs
among them; for every other sequence `T` the first 1024 symbols of `T` do not occur in `S` and those of `S` do not occur in `T`.
Then `guideTreeS` — `d_estimation(pair = 1)` and `upgma` in binary32 — returns a tree with a subtree whose leaves are exactly the
positions of the copies of `S`. -/
theorem C12Soft_copies_form_clade (seqs : List (List Nat)) (S : List Nat) (hn : seqs.length < 100)
    (hsym : ∀ s ∈ seqs, ∀ c ∈ s, c < 13) (hS : S ∈ seqs)
    (hno : ∀ T ∈ seqs, T ≠ S → ¬ (T.take 1024 <:+: S) ∧ ¬ (S.take 1024 <:+: T)) :
    ∃ tree, guideTreeS seqs = some tree ∧
      ∃ s ∈ tree.subtrees, ∀ x, x ∈ s.leaves ↔ (x < seqs.length ∧ seqs[x]? = some S) := by
  obtain ⟨dm, T, hdm, hT, u, hu, hlu⟩ := upgmaS_dist_clade seqs (List.range seqs.length) (by simp) S hn hsym
    (fun x => decide (seqs[x]? = some S))
    (by
      intro i hi
      have hi' : i < seqs.length := by simpa using hi
      rw [List.getElem_range, decide_eq_true_iff, List.getD_eq_getElem?_getD, List.getElem?_eq_getElem hi']
      simp)
    hS hno
  refine ⟨T, by unfold guideTreeS; rw [hdm]; exact hT, u, hu, fun x => ?_⟩
  rw [hlu x]
  simp

/-- sub-trees survive `GTree.toTree` -/
theorem GTree.sub_toTree {u t : GTree} (h : u ∈ t.subtrees) : Tree.Sub (Pipeline.GTree.toTree u) (Pipeline.GTree.toTree t) := by
  induction t with
  | leaf i =>
    simp only [GTree.subtrees, List.mem_singleton] at h
    subst h; exact Tree.Sub.refl _
  | node l r ihl ihr =>
    simp only [GTree.subtrees, List.mem_cons, List.mem_append] at h
    rcases h with rfl | h | h
    · exact Tree.Sub.refl _
    · exact Tree.Sub.left (ihl h)
    · exact Tree.Sub.right (ihr h)

/-- **the same for the `< 100` branch of `bisecting_kmeans` as the pipeline `kalignRunSoft2` calls it** (`samples` = the input
indices of the part, `codes` = all sequences in the tree alphabet): the returned tree has a sub-tree whose leaves are exactly the
samples whose sequence is `S` -/
theorem C12Soft_smallTree_clade (codes : Array (List Nat)) (samples : List Nat) (S : List Nat) (hn : samples.length < 100)
    (hsym : ∀ x ∈ samples, ∀ c ∈ codes.getD x [], c < 13) (hS : ∃ x, x ∈ samples ∧ codes.getD x [] = S)
    (hno : ∀ x ∈ samples, codes.getD x [] ≠ S →
      ¬ ((codes.getD x []).take 1024 <:+: S) ∧ ¬ (S.take 1024 <:+: codes.getD x [])) :
    ∃ t, Pipeline.smallTreeS codes samples = some t ∧
      ∃ v, Tree.Sub v t ∧ ∀ x, x ∈ v.leaves ↔ (x ∈ samples ∧ codes.getD x [] = S) := by
  have hmem : ∀ s, s ∈ samples.map (fun s => codes.getD s []) → ∃ x, x ∈ samples ∧ codes.getD x [] = s := by
    intro s hs
    simpa [List.mem_map] using hs
  obtain ⟨dm, T, hdm, hT, u, hu, hlu⟩ := upgmaS_dist_clade (samples.map fun s => codes.getD s []) samples (by simp) S
    (by simpa using hn)
    (by
      intro s hs
      obtain ⟨x, hx, rfl⟩ := hmem s hs
      exact hsym x hx)
    (fun x => decide (codes.getD x [] = S))
    (by
      intro i hi
      rw [decide_eq_true_iff, List.getD_eq_getElem?_getD, List.getElem?_map, List.getElem?_eq_getElem hi]
      simp)
    (by
      obtain ⟨x, hx, e⟩ := hS
      exact List.mem_map.2 ⟨x, hx, e⟩)
    (by
      intro T hT hne
      obtain ⟨x, hx, rfl⟩ := hmem T hT
      exact hno x hx hne)
  refine ⟨Pipeline.GTree.toTree T, by unfold Pipeline.smallTreeS; rw [hdm]; simp [hT], Pipeline.GTree.toTree u, GTree.sub_toTree hu,
    fun x => ?_⟩
  rw [Pipeline.GTree.leaves_toTree, hlu x]
  simp

/-! ## item 4: non-vacuity -/

deriving instance DecidableEq for GTree

/-- six sequences over `{0,1,2,3}`; `[0,1,2,3]` occurs three times (positions 1, 3, 5) -/
def exC12 : List (List Nat) := [[3, 3, 1, 0, 2], [0, 1, 2, 3], [2, 2, 0, 1], [0, 1, 2, 3], [1, 0, 0, 3, 2, 2], [0, 1, 2, 3]]

/-- the hypotheses of `C12Soft_copies_form_clade` hold for `exC12` -/
example : ∃ tree, guideTreeS exC12 = some tree ∧
    ∃ s ∈ tree.subtrees, ∀ x, x ∈ s.leaves ↔ (x < exC12.length ∧ exC12[x]? = some [0, 1, 2, 3]) :=
  C12Soft_copies_form_clade exC12 [0, 1, 2, 3] (by decide) (by decide) (by decide) (by
    intro T hT hne
    have : T = [3, 3, 1, 0, 2] ∨ T = [2, 2, 0, 1] ∨ T = [1, 0, 0, 3, 2, 2] := by
      simp only [exC12, List.mem_cons, List.mem_nil_iff, or_false] at hT
      rcases hT with h | h | h | h | h | h
      · exact Or.inl h
      · exact absurd h hne
      · exact Or.inr (Or.inl h)
      · exact absurd h hne
      · exact Or.inr (Or.inr h)
      · exact absurd h hne
    rcases this with rfl | rfl | rfl <;> constructor <;> decide)

set_option maxRecDepth 100000 in
/-- … and the kernel evaluates the binary32 guide tree: the copies 1, 3, 5 form the clade `((1,3),5)` -/
theorem exC12_tree : guideTreeS exC12 =
    some (.node (.node (.leaf 0) (.node (.node (.leaf 1) (.leaf 3)) (.leaf 5))) (.node (.leaf 2) (.leaf 4))) := by
  decide +kernel

example : ∃ tree, guideTreeS exC12 = some tree ∧ ∃ s ∈ tree.subtrees, s.leaves = [1, 3, 5] :=
  ⟨_, exC12_tree, .node (.node (.leaf 1) (.leaf 3)) (.leaf 5), by simp [GTree.subtrees], rfl⟩

set_option maxRecDepth 100000 in
/-- the binary32 matrix of `exC12` (bit patterns): `4/10000 = 0x39d1b717` between copies, at least `2.0004…` across -/
example : (distMatrixS exC12).map (fun m => (m.getD 1 []).map SoftF32.raw) =
    some [1073743502, 970045207, 1073743502, 970045207, 1073743921, 970045207] := by
  decide +kernel

/-- item 2 on a hand-made matrix: `C = {0, 1}` at mutual distance `0.3F`, everything else at distance at least `2.0F`;
`A0 = 320000` (`≈ 0.305`), `B0 = 2000000` (`≈ 1.907`) -/
def exDm : List (List SoftF32) :=
  [[ofRaw 0, ofRaw 0x3e99999a, ofRaw 0x40000000, ofRaw 0x40200000],
   [ofRaw 0x3e99999a, ofRaw 0, ofRaw 0x40066666, ofRaw 0x400ccccd],
   [ofRaw 0x40000000, ofRaw 0x40066666, ofRaw 0, ofRaw 0x3f333333],
   [ofRaw 0x40200000, ofRaw 0x400ccccd, ofRaw 0x3f333333, ofRaw 0]]

instance (x : SoftF32) (V : Nat) : Decidable (AbsV x V) := by unfold AbsV; infer_instance
instance (x : SoftF32) (N : Nat) : Decidable (absLe x N) := by unfold absLe; infer_instance

set_option maxRecDepth 100000 in
example : ∃ T, upgmaS exDm [0, 1, 2, 3] = some T ∧
    ∃ u ∈ T.subtrees, ∀ x, x ∈ u.leaves ↔ (x ∈ [0, 1, 2, 3] ∧ decide (x < 2) = true) :=
  C12Soft_upgma_clade exDm [0, 1, 2, 3] (fun x => decide (x < 2)) 320000 2000000 (by decide) (by decide) ⟨0, by decide, by decide⟩
    (by decide +kernel)
    (by intro i j hi hj; revert j; revert i; decide +kernel)
    (by intro i z hi hz; revert z; revert i; decide +kernel)

set_option maxRecDepth 100000 in
/-- the same instance through the comparisons of the code: inside `C` entries in `[0, 0.3F]`, across at least `2.0F` -/
example : ∃ T, upgmaS exDm [0, 1, 2, 3] = some T ∧
    ∃ u ∈ T.subtrees, ∀ x, x ∈ u.leaves ↔ (x ∈ [0, 1, 2, 3] ∧ decide (x < 2) = true) :=
  C12Soft_upgma_clade_le exDm [0, 1, 2, 3] (by decide) (fun x => decide (x < 2)) (ofRaw 0x3e99999a) (ofRaw 0x40000000)
    (by decide) (by decide) (by decide) ⟨0, by decide, by decide⟩
    (by decide +kernel)
    (by intro i j hi hj; revert j; revert i; decide +kernel)
    (by intro i z hi hz; revert z; revert i; decide +kernel)

set_option maxRecDepth 100000 in
/-- … and what the kernel computes for it: `C = {0, 1}` is the left subtree -/
example : upgmaS exDm [0, 1, 2, 3] = some (.node (.node (.leaf 0) (.leaf 1)) (.node (.leaf 2) (.leaf 3))) := by decide +kernel

end Kalign
