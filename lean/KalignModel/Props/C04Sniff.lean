import KalignModel.Props.C04
/-!
# C01 / C04 — what format a file has is decided by how it begins (defect #25, repaired in 8e76171)

`detect_alignment_format` used to let any Clustal signature among the first 100 lines override any MSF signature override any `>`.
`detectFormatOld` keeps that rule as a definition so that the difference stays a theorem: a FASTA file whose description mentions
"CLUSTAL W" was a Clustal file for the old rule (`old_rule_misreads_described_fasta`) and is a FASTA file now, whatever its descriptions
and residue lines contain (`C04_fasta_sniffed`: no hypothesis on names or lines).  The side condition `hdet` of `Presents.fasta` is thereby
discharged for every FASTA presentation preceded by fewer than 100 junk lines (`Presents.fasta_sniffed`).
-/
namespace Kalign.IO
open List

/-- the rule before 8e76171: every non-zero hint overwrites, fasta < msf < clu -/
def detectFormatOld (lines : List Bytes) : Int :=
  let (h0, h1, h2) := hints lines
  let t : Int := -1
  let t := if h0 ≠ 0 then 1 else t
  let t := if h1 ≠ 0 then 2 else t
  let t := if h2 ≠ 0 then 3 else t
  t

/-- the witness of defect #25: three FASTA records, the first described as "re-aligned from a CLUSTAL W run" -/
def describedFasta : List Bytes :=
  [ascii ">s1 re-aligned from a CLUSTAL W run", ascii "MKVLAAGIVGLLLAQWERT", ascii ">s2 second", ascii "MKVLSAGIVGLLAQWERT",
   ascii ">s3", ascii "MKVLAAGIVGLLLAQWET"]

theorem old_rule_misreads_described_fasta : detectFormatOld describedFasta = 3 := by decide +kernel
theorem new_rule_reads_described_fasta : detectFormat describedFasta = 1 := by decide +kernel

/-- an MSF file whose rows happen to contain "CLUSTAL W" (a sequence named CLUSTAL whose residues start with W) -/
def msfWithClustalRow : List Bytes :=
  [ascii "!!AA_MULTIPLE_ALIGNMENT 1.0", ascii "", ascii " x.msf  MSF: 4  Type: P  January 01, 2000 00:00  Check: 0  ..", ascii "",
   ascii " Name: CLUSTAL  Len: 4  Check: 0  Weight: 1.00", ascii " Name: b  Len: 4  Check: 0  Weight: 1.00", ascii "", ascii "//", ascii "",
   ascii "CLUSTAL WKVL", ascii "b WKIL"]

theorem old_rule_misreads_msf_row : detectFormatOld msfWithClustalRow = 3 := by decide +kernel
theorem new_rule_reads_msf_row : detectFormat msfWithClustalRow = 2 := by decide +kernel

theorem lineKind_junk (l : Bytes) (h : Junk l) : lineKind l = none := by
  obtain ⟨h62, hany⟩ := h
  have hno : ∀ b, (isAlpha b || isPunct b) = true → b ∉ l := by
    intro b hb hm
    have := List.any_eq_false.mp hany b hm
    simp [hb] at this
  have hf : fastaHint l = 0 := by
    unfold fastaHint
    cases l with
    | nil => simp
    | cons x xs => simp only [head?_cons] at h62 ⊢; simp; intro hx; exact h62 (by rw [hx])
  have hm : countHints msfHints l = 0 := by
    unfold countHints msfHints
    simp only [countP_cons, countP_nil]
    rw [hasSub_false (ascii "!!AA_MULTIPLE_ALIGNMENT") l 65 (by decide) (hno 65 (by decide)),
      hasSub_false (ascii "!!NA_MULTIPLE_ALIGNMENT") l 65 (by decide) (hno 65 (by decide)),
      hasSub_false (ascii "MSF:") l 77 (by decide) (hno 77 (by decide))]
    rfl
  have hc : countHints cluHints l = 0 := by
    unfold countHints cluHints
    simp only [countP_cons, countP_nil]
    rw [hasSub_false (ascii "multiple sequence alignment") l 109 (by decide) (hno 109 (by decide)),
      hasSub_false (ascii "CLUSTAL W") l 67 (by decide) (hno 67 (by decide)),
      hasSub_false (ascii "CLUSTAL O") l 67 (by decide) (hno 67 (by decide))]
    rfl
  unfold lineKind
  simp [hf, hm, hc]

theorem findSome_take_skip (pre : List Bytes) (x : Bytes) (rest : List Bytes) (v : Int) (n : Nat)
    (hpre : ∀ l ∈ pre, lineKind l = none) (hx : lineKind x = some v) (hn : pre.length < n) :
    ((pre ++ x :: rest).take n).findSome? lineKind = some v := by
  induction pre generalizing n with
  | nil =>
    cases n with
    | zero => simp at hn
    | succ n => simp [take_succ_cons, hx]
  | cons p ps ih =>
    cases n with
    | zero => simp at hn
    | succ n =>
      simp only [cons_append, take_succ_cons, findSome?_cons, hpre p (by simp)]
      exact ih n (fun l hl => hpre l (by simp [hl])) (by simp at hn; omega)

/-- **a file that begins (after fewer than 100 blank/junk lines) with a FASTA record is a FASTA file**, whatever the descriptions and the
residue lines of its records contain -/
theorem C04_fasta_sniffed (pre : List Bytes) (recs : List (Bytes × List Bytes)) (hpre : ∀ l ∈ pre, Junk l) (hlen : pre.length < 100)
    (hne : recs ≠ []) : detectFormat (pre ++ faPres recs) = 1 := by
  obtain ⟨r, rs, rfl⟩ := exists_cons_of_ne_nil hne
  unfold detectFormat
  simp only [faPres, flatMap_cons, cons_append]
  rw [findSome_take_skip pre (62 :: r.1) _ 1 100 (fun l hl => lineKind_junk l (hpre l hl)) (lineKind_fasta _ (by simp [fastaHint])) hlen]
  rfl

/-- a file whose first line is a Clustal title (does not start with '>', carries a Clustal signature) is a Clustal file, whatever follows -/
theorem C04_clu_sniffed (title : Bytes) (rest : List Bytes) (h0 : fastaHint title = 0) (h : countHints cluHints title ≠ 0) :
    detectFormat (title :: rest) = 3 :=
  detectFormat_head _ _ _ (lineKind_clu _ h0 h)

/-- a file whose first line is an MSF header line without a Clustal signature is an MSF file, whatever follows (rows named CLUSTAL included) -/
theorem C04_msf_sniffed (l : Bytes) (rest : List Bytes) (h0 : fastaHint l = 0) (h1 : countHints cluHints l = 0)
    (h : countHints msfHints l ≠ 0) : detectFormat (l :: rest) = 2 :=
  detectFormat_head _ _ _ (lineKind_msf _ h0 h1 h)

/-- `Presents.fasta` without the sniffing side condition -/
theorem Presents.fasta_sniffed (pre : List Bytes) (recs : List (Bytes × List Bytes))
    (hpre : ∀ l ∈ pre, Junk l) (hlen : pre.length < 100) (h62 : ∀ r ∈ recs, ∀ l ∈ r.2, l.head? ≠ some 62) (hne : recs ≠ [])
    (hcn : ∀ l ∈ pre ++ faPres recs, ∀ b ∈ l, isCntrl b = false)
    (hfirst : ∀ l ls, pre ++ faPres recs = l :: ls → l.length ≠ 1) :
    Presents (emit (pre ++ faPres recs)) (recs.map recOf) :=
  Presents.fasta pre recs hpre h62 hne hcn hfirst (C04_fasta_sniffed pre recs hpre hlen hne)

/-- `Presents.clu` without the sniffing side condition: the title line decides -/
theorem Presents.clu_sniffed (title : Bytes) (junk : List Bytes) (extra : Nat → List Bytes × Nat) (k : Nat) (rs : List RowC)
    (hj : ∀ l ∈ junk, CluJunk l) (hx : ∀ b, ∀ l ∈ (extra b).1, BlankStart l)
    (hk : ∀ r ∈ rs, r.2.length = k + 1) (hn : ∀ r ∈ rs, NmOK' r.1) (hne : rs ≠ [])
    (hcn : ∀ l ∈ title :: (junk ++ cluPres extra (k + 1) 0 rs), ∀ b ∈ l, isCntrl b = false)
    (hfirst : title.length ≠ 1) (h0 : fastaHint title = 0) (ht : countHints cluHints title ≠ 0) :
    Presents (emit (title :: (junk ++ cluPres extra (k + 1) 0 rs))) (rs.map recOf) :=
  Presents.clu title junk extra k rs hj hx hk hn hne hcn hfirst (C04_clu_sniffed title _ h0 ht)

/-- `Presents.msf` without the sniffing side condition when the first header line is an MSF header line without a Clustal signature (as in
every file GCG tools and kalign write: `!!AA_MULTIPLE_ALIGNMENT`, `PileUp … MSF:`): rows named CLUSTAL further down do not matter -/
theorem Presents.msf_sniffed (h1 : HdrLine) (hdr : List HdrLine) (sep : Bytes) (junk : List Bytes) (extra : Nat → List Bytes × Nat) (k : Nat)
    (rs : List RowC) (hv : ∀ x ∈ h1 :: hdr, x.Valid) (hsep : hasSub (ascii "//") sep = true)
    (hj : ∀ l ∈ junk, CluJunk l) (hx : ∀ b, ∀ l ∈ (extra b).1, BlankStart l)
    (hk : ∀ r ∈ rs, r.2.length = k) (hnames : hdrNames (h1 :: hdr) = rs.map (·.1)) (hne : rs ≠ [])
    (hcn : ∀ l ∈ (h1 :: hdr).map (·.1) ++ sep :: (junk ++ msfPres extra k 0 rs), ∀ b ∈ l, isCntrl b = false)
    (hfirst : ∀ l ls, (h1 :: hdr).map (·.1) ++ sep :: (junk ++ msfPres extra k 0 rs) = l :: ls → l.length ≠ 1)
    (h0 : fastaHint h1.1 = 0) (hc : countHints cluHints h1.1 = 0) (hm : countHints msfHints h1.1 ≠ 0) :
    Presents (emit ((h1 :: hdr).map (·.1) ++ sep :: (junk ++ msfPres extra k 0 rs))) (rs.map recOf) :=
  Presents.msf (h1 :: hdr) sep junk extra k rs hv hsep hj hx hk hnames hne hcn hfirst
    (by simp only [map_cons, cons_append]; exact C04_msf_sniffed h1.1 _ h0 hc hm)

/-- non-vacuity: a described FASTA file with a leading blank line meets the premises -/
example : detectFormat ([ascii ""] ++ faPres [(ascii "s1 from a CLUSTAL W run  MSF: 3", [ascii "CLUSTAL W", ascii "ACGT"])]) = 1 :=
  C04_fasta_sniffed _ _ (by intro l hl; simp at hl; subst hl; exact ⟨by decide, by decide⟩) (by decide) (by simp)

end Kalign.IO
