import KalignModel.Lemmas.SoftExact6
import KalignModel.Model.PipelineSoft
import KalignModel.Props.C08Opt
/-!
# C07 / C08 on binary32 — Hirschberg optimality transferred from the exact carrier to `SoftF32` for dyadic parameter sets

`SoftF32` (Model/SoftFloat.lean) is IEEE-754 binary32 in core Lean, tied bit-for-bit to the C `float` computation (ops `f32`,
`kalign_sys_soft*`).  The theorems of `Props/C07Opt.lean` and `Props/C08Opt.lean` are about the exact carrier; the ones below are
about what the binary32 code computes, without any hypothesis on floating-point values.

* **Z1** `DyadicParam U ap apE` (Lemmas/SoftExact2.lean): the `SoftF32` parameters `ap` are the exact images of the exact parameters
  `apE`; every penalty and matrix entry is a multiple of 1/2 score unit of magnitude at most `U` half units (`U/2` score units).
  `C07Soft_dyadic_protein`, `…_protein_undefined`, `…_dna`, `…_dna_internal` (`U = 32`), `…_protein_divergent` (`U = 512`) by kernel
  evaluation of the generated tables; `C07Soft_rna_not_dyadic`, `C07Soft_nucleotide_default_not_dyadic`: the rows with 39.4 / 292.6
  are not dyadic and stay outside.
* **Z2** `C07Soft_forward_exact`, `C07Soft_backward_exact`: with `U·(rows + cols) < 2²⁴` every cell of the `SoftF32` forward /
  backward table is `half h` where the exact kernel has `some (1000·h)`, and sentinel-like (`-FLT_MAX` or `-∞`) where it has `−∞`.
* **Z3** `C07Soft_tie_le` (the `SoftF32` tie-break term is at most `(|c3+c2−2i|/1000 + 1)/2`, i.e. the exact term plus 0.5 score
  units), `C07Soft_ssMeet_robust` (the `SoftF32` meetup returns an admissible cut whose exact value `v` — forward + backward − join,
  without tie-break term — satisfies `v' − (endb−startb) − 1000 ≤ v` (units of 1/2000) for every admissible cut `v'`).
  No rounding error term is needed: correctly rounded subtraction is monotone and the bounds `h/2`, `(h − T)/2` are representable.
* **Z4** `C07Soft_hirschberg_seqseq_opt`, `C07Soft_alnRun_serial_opt`, `C07Soft_alnRun_opt`: the margin hypothesis of
  `C07_hirschberg_seqseq_opt` with `len_b + 1000` in place of `len_b` (an additive slack of **1000 units = 0.5 score units**) ⟹
  both entry points of the controller on the `SoftF32` kernels return exactly `P`.  Size condition
  `U·(len_a + len_b + 1) + len_b/1000 + 1 < 2²⁴` and `len_b < 2²²` (`…_default`: `U = 64`, `len_a + len_b < 2¹⁷`).
  `C08Soft_identical_pair_diag` (+ `_table`, `_protein`, `_dna`): identical operands come back as the diagonal.
-/
namespace Kalign
open SoftF32 Pipeline

/-! ## Z1 — dyadic parameter sets -/

theorem DyVal.mono {U U' : Nat} {x : SoftF32} {e : ExactScore} (h : DyVal U x e) (hU : U ≤ U') : DyVal U' x e := by
  obtain ⟨g, g1, g2, g3⟩ := h
  exact ⟨g, by omega, g2, g3⟩

theorem DyadicParam.mono {U U' : Nat} {ap : AlnParam SoftF32} {apE : AlnParam ExactScore} (h : DyadicParam U ap apE)
    (hU : U ≤ U') : DyadicParam U' ap apE :=
  ⟨h.gpo.mono hU, h.gpe.mono hU, h.tgpe.mono hU, fun i j => (h.sub i j).mono hU⟩

/-- decidable form of `DyVal` -/
def dyValCheck (U : Nat) (x : SoftF32) (e : ExactScore) : Bool :=
  match e with
  | none => false
  | some v => decide (v % 1000 = 0) && decide ((v / 1000).natAbs ≤ U) && decide (x = half (v / 1000))

theorem dyVal_of_check {U : Nat} {x : SoftF32} {e : ExactScore} (h : dyValCheck U x e = true) : DyVal U x e := by
  cases e with
  | none => simp [dyValCheck] at h
  | some v =>
    simp only [dyValCheck, Bool.and_eq_true, decide_eq_true_eq] at h
    obtain ⟨⟨h1, h2⟩, h3⟩ := h
    exact ⟨v / 1000, h2, h3, by congr 1; omega⟩

/-- the matrix has at most 23 rows of at most 23 entries (indices outside read the default `0`) -/
def subShapeOK {α : Type} (ap : AlnParam α) : Bool :=
  decide (ap.subm.size ≤ 23) && ap.subm.all fun r => decide (r.size ≤ 23)

theorem sub_oob {α : Type} [Score α] (ap : AlnParam α) (h : subShapeOK ap = true) (i j : Nat) (hij : ¬ (i < 23 ∧ j < 23)) :
    ap.sub i j = Score.zero := by
  simp only [subShapeOK, Bool.and_eq_true, decide_eq_true_eq, Array.all_eq_true] at h
  obtain ⟨h1, h2⟩ := h
  unfold AlnParam.sub
  by_cases hi : i < ap.subm.size
  · have hr := h2 i hi
    have e : ap.subm.getD i #[] = ap.subm[i] := by simp [Array.getD, hi]
    rw [e]
    have : ¬ j < ap.subm[i].size := by omega
    simp [Array.getD, this]
  · have e : ap.subm.getD i #[] = #[] := by simp [Array.getD, hi]
    rw [e]
    simp [Array.getD]

/-- decidable form of `DyadicParam` -/
def dyadicCheck (U : Nat) (ap : AlnParam SoftF32) (apE : AlnParam ExactScore) : Bool :=
  dyValCheck U ap.gpo apE.gpo && dyValCheck U ap.gpe apE.gpe && dyValCheck U ap.tgpe apE.tgpe &&
  subShapeOK ap && subShapeOK apE &&
  (List.range 23).all fun i => (List.range 23).all fun j => dyValCheck U (ap.sub i j) (apE.sub i j)

theorem dyadicParam_of_check {U : Nat} {ap : AlnParam SoftF32} {apE : AlnParam ExactScore}
    (h : dyadicCheck U ap apE = true) : DyadicParam U ap apE := by
  simp only [dyadicCheck, Bool.and_eq_true, List.all_eq_true, List.mem_range] at h
  obtain ⟨⟨⟨⟨⟨h1, h2⟩, h3⟩, h4⟩, h5⟩, h6⟩ := h
  refine ⟨dyVal_of_check h1, dyVal_of_check h2, dyVal_of_check h3, ?_⟩
  intro i j
  by_cases hij : i < 23 ∧ j < 23
  · exact dyVal_of_check (h6 i hij.1 j hij.2)
  · rw [sub_oob ap h4 i j hij, sub_oob apE h5 i j hij]
    exact ⟨0, by simp, half_zero.symm, rfl⟩

/-- `-1.0F`: "no override" argument of `aln_param_init` -/
def neg1 : SoftF32 := ofRaw 0xbf800000

/-- the `SoftF32` parameter set `aln_param_init` builds for `(biotype, type)` without overrides -/
def softParamOf (bt : Nat) (t : Int) : AlnParam SoftF32 :=
  (paramOfTableS bt t neg1 neg1 neg1).getD ⟨#[], zero, zero, zero⟩

/-- every type outside `0..4` (in particular the "undefined" constant) takes the `default:` row of its biotype -/
theorem softParamOf_undefined (bt : Nat) (t : Int) (ht : ¬ (0 ≤ t ∧ t ≤ 4)) : softParamOf bt t = softParamOf bt 5 := by
  unfold softParamOf paramOfTableS alnParamInitS lookupRow normType
  rw [if_neg ht, if_neg (by omega)]

theorem softParamOf_protein_some : (paramOfTableS 0 3 neg1 neg1 neg1).isSome = true := by decide +kernel
theorem softParamOf_protein_undefined_some : (paramOfTableS 0 (-1) neg1 neg1 neg1).isSome = true := by decide +kernel
theorem softParamOf_dna_some : (paramOfTableS 1 0 neg1 neg1 neg1).isSome = true := by decide +kernel
theorem softParamOf_dna_internal_some : (paramOfTableS 1 1 neg1 neg1 neg1).isSome = true := by decide +kernel

/-- **protein, type 3** (matrix 0: integers −4..13; penalties 5.5 / 2.0 / 1.0) -/
theorem C07Soft_dyadic_protein : DyadicParam 32 (softParamOf 0 3) (exactParam Gen.mat0 5500 2000 1000) :=
  dyadicParam_of_check (by decide +kernel)

/-- **protein, undefined type** (`-1` and every value outside `0..4`): the same row -/
theorem C07Soft_dyadic_protein_undefined (t : Int) (ht : ¬ (0 ≤ t ∧ t ≤ 4)) :
    DyadicParam 32 (softParamOf 0 t) (exactParam Gen.mat0 5500 2000 1000) := by
  rw [softParamOf_undefined 0 t ht]
  exact dyadicParam_of_check (by decide +kernel)

/-- **DNA** (type 0: match 5, mismatch −4; penalties 8 / 6 / 0) -/
theorem C07Soft_dyadic_dna : DyadicParam 32 (softParamOf 1 0) (exactParam Gen.mat3 8000 6000 0) :=
  dyadicParam_of_check (by decide +kernel)

/-- **DNA internal** (type 1: penalties 8 / 6 / 8) -/
theorem C07Soft_dyadic_dna_internal : DyadicParam 32 (softParamOf 1 1) (exactParam Gen.mat3 8000 6000 8000) :=
  dyadicParam_of_check (by decide +kernel)

/-- **divergent protein** (type 4: matrix 1, integers −52..142; penalties 55 / 8 / 4): dyadic, but only with `U = 512`, so the
size condition of Z4 allows `len_a + len_b` up to about 2¹⁵ -/
theorem C07Soft_dyadic_protein_divergent : DyadicParam 512 (softParamOf 0 4) (exactParam Gen.mat1 55000 8000 4000) :=
  dyadicParam_of_check (by decide +kernel)

/-- a dyadic value below 2²³ has no bits below 2⁻¹ -/
theorem half_toInt_mod {x : SoftF32} (h : ∃ g : Int, g.natAbs < 16777216 ∧ x = half g) :
    toInt x % ((2 ^ 148 : Nat) : Int) = 0 := by
  obtain ⟨g, g1, rfl⟩ := h
  rw [(half_fin g1).2.1]
  exact Int.mul_emod_left _ _

/-- **RNA** (type 2: penalties 217 / 39.4 / 292.6): `gpe` and `tgpe` are not dyadic — outside this slice -/
theorem C07Soft_rna_not_dyadic :
    (¬ ∃ g : Int, g.natAbs < 16777216 ∧ (softParamOf 1 2).gpe = half g) ∧
    (¬ ∃ g : Int, g.natAbs < 16777216 ∧ (softParamOf 1 2).tgpe = half g) := by
  constructor
  · intro h
    have := half_toInt_mod h
    revert this
    decide +kernel
  · intro h
    have := half_toInt_mod h
    revert this
    decide +kernel

/-- **nucleotide default** (biotype DNA with the undefined type takes the RNA values 217 / 39.4 / 292.6): not dyadic either -/
theorem C07Soft_nucleotide_default_not_dyadic :
    (¬ ∃ g : Int, g.natAbs < 16777216 ∧ (softParamOf 1 (-1)).gpe = half g) ∧
    (¬ ∃ g : Int, g.natAbs < 16777216 ∧ (softParamOf 1 (-1)).tgpe = half g) := by
  constructor
  · intro h
    have := half_toInt_mod h
    revert this
    decide +kernel
  · intro h
    have := half_toInt_mod h
    revert this
    decide +kernel

/-! ## Z2 — cell transfer for the sequence–sequence kernels -/

/-- **forward kernel**: cell `j` of the `SoftF32` table against cell `j` of the exact table (one-hot start states of kind `fk`) -/
theorem C07Soft_forward_exact (U : Nat) (ap : AlnParam SoftF32) (apE : AlnParam ExactScore) (hd : DyadicParam U ap apE)
    (gpo gpe tgpe : Int) (s : Nat → Nat → Int) (hap : ApOK apE gpo gpe tgpe s)
    (seq1 seq2 : Array Nat) (r : Rect) (hb : r.startb < r.endb) (fk : Kind)
    (hL : U * ((r.enda - r.starta) + (r.endb - r.startb)) < 16777216) (j : Nat) (hj1 : r.startb ≤ j) (hj2 : j ≤ r.endb) :
    ∃ cS cE, (kForward ap (.seqseq seq1 seq2) r (hotS fk))[j - r.startb]? = some cS ∧
      (kForward apE (.seqseq seq1 seq2) r (hot fk))[j - r.startb]? = some cE ∧
      cE = absTab (cfgF gpo gpe tgpe s seq1 seq2 r) (hot fk) (r.enda - r.starta) (j - r.startb) ∧
      StEmb (U * ((r.enda - r.starta) + (j - r.startb))) cS cE := by
  obtain ⟨F, hF, hemb⟩ := ssForward_emb hd hap seq1 seq2 r hb fk hL
  refine ⟨F (j - r.startb), _, ?_, ?_, rfl, hemb _ (by omega)⟩
  · show (ssForward ap seq1 seq2 r (hotS fk))[j - r.startb]? = _
    rw [hF, List.getElem?_map, List.getElem?_range (by omega)]; rfl
  · show (ssForward apE seq1 seq2 r (hot fk))[j - r.startb]? = _
    rw [ssForward_eq_absTab apE gpo gpe tgpe s hap seq1 seq2 r hb, List.getElem?_map, List.getElem?_range (by omega)]; rfl

/-- **backward kernel** -/
theorem C07Soft_backward_exact (U : Nat) (ap : AlnParam SoftF32) (apE : AlnParam ExactScore) (hd : DyadicParam U ap apE)
    (gpo gpe tgpe : Int) (s : Nat → Nat → Int) (hap : ApOK apE gpo gpe tgpe s)
    (seq1 seq2 : Array Nat) (r : Rect) (hb : r.startb < r.endb) (ha : r.starta ≤ r.enda) (bk : Kind)
    (hL : U * ((r.enda - r.starta) + (r.endb - r.startb)) < 16777216) (j : Nat) (hj1 : r.startb ≤ j) (hj2 : j ≤ r.endb) :
    ∃ cS cE, (kBackward ap (.seqseq seq1 seq2) r (hotS bk))[j - r.startb]? = some cS ∧
      (kBackward apE (.seqseq seq1 seq2) r (hot bk))[j - r.startb]? = some cE ∧
      cE = absTab (cfgB gpo gpe tgpe s seq1 seq2 r) (hot bk) (r.enda - r.starta) (r.endb - j) ∧
      StEmb (U * ((r.enda - r.starta) + (r.endb - j))) cS cE := by
  obtain ⟨G, hG, hemb⟩ := ssBackward_emb hd hap seq1 seq2 r hb ha bk hL
  have e : r.endb - r.startb - (j - r.startb) = r.endb - j := by omega
  refine ⟨G (j - r.startb), _, ?_, ?_, rfl, ?_⟩
  · show (ssBackward ap seq1 seq2 r (hotS bk))[j - r.startb]? = _
    rw [hG, List.getElem?_map, List.getElem?_range (by omega)]; rfl
  · show (ssBackward apE seq1 seq2 r (hot bk))[j - r.startb]? = _
    rw [ssBackward_eq_absTab apE gpo gpe tgpe s hap seq1 seq2 r hb ha, map_range_reverse, List.getElem?_map,
      List.getElem?_range (by omega)]
    simp only [Option.map_some, cfgB, e]
  · have := hemb (j - r.startb) (by omega)
    rw [e] at this
    exact this

/-! ## Z3 — the meetup: tie-break term and robust argmax -/

/-- the `SoftF32` tie-break term `fabsf((float)(c3-c2)/2.0F + (float)c2 - (float)i)/1000.0F` is finite, non-negative and at most
`((c3−c2)/1000 + 1)/2` score units: in units of 1/2000 at most `(c3−c2) + 1000`, where the exact term is at most `c3−c2` -/
theorem C07Soft_tie_le (sb eb i : Nat) (h1 : sb ≤ i) (h2 : i ≤ eb) (h3 : eb < 4194304) :
    let x : SoftF32 := Score.tie (sb : Int) (eb : Int) (i : Int)
    x.isFinite = true ∧ 0 ≤ toInt x ∧ toInt x ≤ (((eb - sb) / 1000 + 1 : Nat) : Int) * ((2 ^ 148 : Nat) : Int) := by
  obtain ⟨a, b, c⟩ := tie_le sb eb i h1 h2 h3
  exact ⟨(isFinite_iff _).2 a, b, c⟩

/-- **robust argmax**: forward + backward + meetup of the `SoftF32` kernels on the rectangle `(sa..ea) × (sb..eb)` with middle row
`mid`, one-hot start states.  `ev k t` = exact value of the cut `(k, t)` without tie-break term (`meetVal = ev − tieOf`).
Either no admissible cut is finite and the meetup keeps `transition = -1`, or it returns an admissible cut `(k, t)` with finite
`ev k t = v` such that every admissible cut satisfies `ev k' t' − (eb − sb) − 1000 ≤ v` -/
theorem C07Soft_ssMeet_robust (U : Nat) (ap : AlnParam SoftF32) (apE : AlnParam ExactScore) (hd : DyadicParam U ap apE)
    (gpo gpe tgpe : Int) (s : Nat → Nat → Int) (hap : ApOK apE gpo gpe tgpe s)
    (seq1 seq2 : Array Nat) (sa mid ea sb eb lenA lenB : Nat) (h1 : sa ≤ mid) (h2 : mid ≤ ea) (h3 : ea ≤ lenA)
    (h4 : sb < eb) (h5 : eb ≤ lenB) (hsize : U * (lenA + lenB + 1) + lenB / 1000 + 1 < 16777216) (hlenB : lenB < 4194304)
    (fk bk : Kind) :
    let rF : Rect := ⟨sa, mid, sb, eb, lenB⟩
    let rB : Rect := ⟨mid, ea, sb, eb, lenB⟩
    let cF := cfgF gpo gpe tgpe s seq1 seq2 rF
    let cB := cfgB gpo gpe tgpe s seq1 seq2 rB
    let res := kMeetup ap (.seqseq seq1 seq2) rF mid (kForward ap (.seqseq seq1 seq2) rF (hotS fk))
      (kBackward ap (.seqseq seq1 seq2) rB (hotS bk))
    let ev := fun (k : Nat) (t : Int) =>
      evC cF (absTab cF (hot fk) (mid - sa) k) (absTab cB (hot bk) (ea - mid) (eb - sb - k)) k t
    (∀ k t, meetVal cF sb eb t k ((absTab cF (hot fk) (mid - sa) k).get (fkOf t))
        ((absTab cB (hot bk) (ea - mid) (eb - sb - k)).get (bkOf t)) = osub (ev k t) (tieOf sb eb k)) ∧
    ((res.transition = -1 ∧ ∀ k t, Adm (eb - sb) k t → ev k t = none) ∨
     (∃ k t v, Adm (eb - sb) k t ∧ res.meet = ((sb + k : Nat) : Int) ∧ res.transition = t ∧ ev k t = some v ∧
        ∀ k' t' v', Adm (eb - sb) k' t' → ev k' t' = some v' → v' - (((eb - sb : Nat) : Int) + 1000) ≤ v)) := by
  intro rF rB cF cB res ev
  refine ⟨fun k t => rfl, ?_⟩
  obtain ⟨F, hFeq, hFemb⟩ := ssForward_emb hd hap seq1 seq2 rF h4 fk
    (size_arith_tab (m := mid - sa) (n := eb - sb) (by omega) (by omega) hsize)
  obtain ⟨G, hGeq, hGemb⟩ := ssBackward_emb hd hap seq1 seq2 rB h4 h2 bk
    (size_arith_tab (m := ea - mid) (n := eb - sb) (by omega) (by omega) hsize)
  have hrob := ssMeet_robust hd hap seq1 seq2 rF ((eb - sb) / 1000 + 1)
    (fun k => U * ((mid - sa) + k)) (fun k => U * ((ea - mid) + (eb - sb - k))) F G
    (absTab cF (hot fk) (mid - sa)) (fun k => absTab cB (hot bk) (ea - mid) (eb - sb - k))
    (fun k hk => ⟨size_arith (m1 := mid - sa) (m2 := ea - mid) hk (by omega) (by omega) hsize, hFemb k hk, hGemb k hk,
      SoftF32.tie_le sb eb (sb + k) (by omega) (by simp only [rF] at hk; omega) (by omega)⟩)
  have hres : res = meetupRun (ssMeetOps ap rF) sb eb ((List.range (eb - sb + 1)).map F) ((List.range (eb - sb + 1)).map G) := by
    show meetupRun (ssMeetOps ap rF) sb eb (ssForward ap seq1 seq2 rF (hotS fk)) (ssBackward ap seq1 seq2 rB (hotS bk)) = _
    rw [hFeq, hGeq]
  simp only [rF] at hrob hres
  rw [← hres] at hrob
  have hta := tie_arith (eb - sb) lenB (by omega)
  rcases hrob with h | ⟨k, t, v, a1, a2, a3, a4, a5⟩
  · exact Or.inl h
  · refine Or.inr ⟨k, t, v, a1, a2, a3, a4, ?_⟩
    intro k' t' v' b1 b2
    have := a5 k' t' v' b1 b2
    omega

/-! ## Z4 — the controller on the `SoftF32` kernels returns the robustly optimal alignment -/

/-- **C07 on binary32 (sequence – sequence).**  Dyadic parameters (`DyadicParam U ap apE`, `apE` finite and non-negative), sizes with
`U·(len_a + len_b + 1) + len_b/1000 + 1 < 2²⁴` and `len_b < 2²²`; `P` a valid column list without a gap-in-a run next to a gap-in-b
run; every other such column list `Q` scores lower (reference score `scoreST` on the exact parameters) by the safe margin of
`C07_hirschberg_seqseq_opt` **plus 1000 units (0.5 score units)**:

    scoreST P − gpo·nterm P − (max(0, tgpe−gpe, tgpe−gpo) + max(0, gpe−tgpe)) − (len_b + 1000)  >  scoreST Q.

Then the serial controller on the real kernels *computing in binary32* does not fault and its path expands to exactly `P`. -/
theorem C07Soft_hirschberg_seqseq_opt (U : Nat) (ap : AlnParam SoftF32) (apE : AlnParam ExactScore)
    (hd : DyadicParam U ap apE) (gpo gpe tgpe : Int) (s : Nat → Nat → Int)
    (hap : ApOK apE gpo gpe tgpe s) (hgpo : 0 ≤ gpo) (hgpe : 0 ≤ gpe) (htgpe : 0 ≤ tgpe)
    (seq1 seq2 : Array Nat) (h1A : 1 ≤ seq1.size) (h1B : 1 ≤ seq2.size)
    (hsize : U * (seq1.size + seq2.size + 1) + seq2.size / 1000 + 1 < 16777216) (hlenB : seq2.size < 4194304)
    (P : List Col) (hV : ValidCols P seq1.size seq2.size) (hadj : adjOK .A P = true)
    (hmargin : ∀ Q, ValidCols Q seq1.size seq2.size → adjOK .A Q = true → Q ≠ P →
      scoreST s gpo gpe tgpe Q seq1.toList seq2.toList + ((seq2.size : Int) + 1000) <
        scoreST s gpo gpe tgpe P seq1.toList seq2.toList - gpo * (nterm P : Int) -
          (max 0 (max (tgpe - gpe) (tgpe - gpo)) + max 0 (gpe - tgpe)))
    (n : Nat) (hn : seq1.size + seq2.size + 1 ≤ n) :
    let r := runnerSerial (realKernels ap (.seqseq seq1 seq2) seq1.size seq2.size) false n
      (initMem seq1.size seq2.size)
    r.fault = false ∧
      ∃ codes, expandPath seq2.size (r.pathEntries seq1.size) = some codes ∧ codes.map Col.ofCode = P := by
  intro r
  have H : OptHypS U ap apE gpo gpe tgpe s seq1 seq2 seq1.size seq2.size P := by
    refine ⟨hd, hap, hgpo, hgpe, htgpe, hsize, hlenB, hadj, hV.2.1, hV.2.2, ?_⟩
    intro Q hQadj hQA hQB hne
    have := hmargin Q ⟨adjOK_noskip _ _ hQadj, hQA, hQB⟩ hQadj hne
    rw [C07_walk_eq_scoreST, C07_walk_eq_scoreST]
    show _ < _ - _ - max 0 (max (tgpe - gpe) (tgpe - gpo)) - max 0 (gpe - tgpe)
    omega
  obtain ⟨hf, hpath⟩ := runner_path_optS U ap apE gpo gpe tgpe s seq1 seq2 seq1.size seq2.size P H n hn
  refine ⟨hf, ?_⟩
  show ∃ codes, expandPath seq2.size
    ((runnerSerial (realKernels ap (.seqseq seq1 seq2) seq1.size seq2.size) false n
      (initMem seq1.size seq2.size)).pathEntries seq1.size) = some codes ∧ _
  rw [hpath]
  have hboth : Col.both ∈ P := by
    refine Classical.byContradiction fun hnb => ?_
    have := (gaps_same .A P hadj hnb).2.2
    rw [hV.2.1, hV.2.2] at this
    omega
  exact expandPath_pathFrom seq2.size P hadj hV.2.2 (by rw [hV.2.1]; exact h1A) hboth

/-- `do_align`'s serial entry point (`alnRun .serial`, fuel `len_a + len_b + 2`) -/
theorem C07Soft_alnRun_serial_opt (U : Nat) (ap : AlnParam SoftF32) (apE : AlnParam ExactScore)
    (hd : DyadicParam U ap apE) (gpo gpe tgpe : Int) (s : Nat → Nat → Int)
    (hap : ApOK apE gpo gpe tgpe s) (hgpo : 0 ≤ gpo) (hgpe : 0 ≤ gpe) (htgpe : 0 ≤ tgpe)
    (seq1 seq2 : Array Nat) (h1A : 1 ≤ seq1.size) (h1B : 1 ≤ seq2.size)
    (hsize : U * (seq1.size + seq2.size + 1) + seq2.size / 1000 + 1 < 16777216) (hlenB : seq2.size < 4194304)
    (P : List Col) (hV : ValidCols P seq1.size seq2.size) (hadj : adjOK .A P = true)
    (hmargin : ∀ Q, ValidCols Q seq1.size seq2.size → adjOK .A Q = true → Q ≠ P →
      scoreST s gpo gpe tgpe Q seq1.toList seq2.toList + ((seq2.size : Int) + 1000) <
        scoreST s gpo gpe tgpe P seq1.toList seq2.toList - gpo * (nterm P : Int) -
          (max 0 (max (tgpe - gpe) (tgpe - gpo)) + max 0 (gpe - tgpe))) :
    let r := alnRun .serial ap (.seqseq seq1 seq2) seq1.size seq2.size (initMem seq1.size seq2.size)
    r.fault = false ∧
      ∃ codes, expandPath seq2.size (r.pathEntries seq1.size) = some codes ∧ codes.map Col.ofCode = P := by
  have := C07Soft_hirschberg_seqseq_opt U ap apE hd gpo gpe tgpe s hap hgpo hgpe htgpe seq1 seq2 h1A h1B hsize hlenB P hV hadj
    hmargin (initMem seq1.size seq2.size : MemS).fuel (by
      show seq1.size + seq2.size + 1 ≤ ((seq1.size : Int) - 0).toNat + ((seq2.size : Int) - 0).toNat + 2
      omega)
  exact this

/-- **either entry point of the controller** (`aln_runner` with its missing `return`, or `aln_runner_serial`) on the binary32
kernels returns `P` -/
theorem C07Soft_alnRun_opt (entry : Entry) (U : Nat) (ap : AlnParam SoftF32) (apE : AlnParam ExactScore)
    (hd : DyadicParam U ap apE) (gpo gpe tgpe : Int) (s : Nat → Nat → Int)
    (hap : ApOK apE gpo gpe tgpe s) (hgpo : 0 ≤ gpo) (hgpe : 0 ≤ gpe) (htgpe : 0 ≤ tgpe)
    (seq1 seq2 : Array Nat) (h1A : 1 ≤ seq1.size) (h1B : 1 ≤ seq2.size)
    (hsize : U * (seq1.size + seq2.size + 1) + seq2.size / 1000 + 1 < 16777216) (hlenB : seq2.size < 4194304)
    (P : List Col) (hV : ValidCols P seq1.size seq2.size) (hadj : adjOK .A P = true)
    (hmargin : ∀ Q, ValidCols Q seq1.size seq2.size → adjOK .A Q = true → Q ≠ P →
      scoreST s gpo gpe tgpe Q seq1.toList seq2.toList + ((seq2.size : Int) + 1000) <
        scoreST s gpo gpe tgpe P seq1.toList seq2.toList - gpo * (nterm P : Int) -
          (max 0 (max (tgpe - gpe) (tgpe - gpo)) + max 0 (gpe - tgpe))) :
    let r := alnRun entry ap (.seqseq seq1 seq2) seq1.size seq2.size (initMem seq1.size seq2.size)
    r.fault = false ∧
      ∃ codes, expandPath seq2.size (r.pathEntries seq1.size) = some codes ∧ codes.map Col.ofCode = P := by
  have hser := C07Soft_alnRun_serial_opt U ap apE hd gpo gpe tgpe s hap hgpo hgpe htgpe seq1 seq2 h1A h1B hsize hlenB P hV
    hadj hmargin
  cases entry with
  | serial => exact hser
  | parallel =>
    have H : OptHypS U ap apE gpo gpe tgpe s seq1 seq2 seq1.size seq2.size P := by
      refine ⟨hd, hap, hgpo, hgpe, htgpe, hsize, hlenB, hadj, hV.2.1, hV.2.2, ?_⟩
      intro Q hQadj hQA hQB hne
      have := hmargin Q ⟨adjOK_noskip _ _ hQadj, hQA, hQB⟩ hQadj hne
      rw [C07_walk_eq_scoreST, C07_walk_eq_scoreST]
      show _ < _ - _ - max 0 (max (tgpe - gpe) (tgpe - gpo)) - max 0 (gpe - tgpe)
      omega
    have hPre : PreS P seq1.size seq2.size (initMem seq1.size seq2.size : MemS) := by
      refine ⟨rfl, fun i _ _ => Or.inl (initMemS_pe _ _ i), ?_, by show (0 : Int) ≤ 0; omega, Or.inr ?_⟩
      · refine ⟨?_, ?_, ?_⟩ <;> simp [initMem] <;> omega
      · refine ⟨0, seq1.size, 0, seq2.size, rfl, rfl, rfl, rfl, ?_, ?_, ?_⟩
        · exact ⟨[], P, [], by simp, rfl, rfl, by simpa using hV.2.1, by simpa using hV.2.2, rfl, rfl,
            Or.inl (by simp), Or.inl (by simp)⟩
        · show ((Array.replicate (max seq1.size seq2.size + 2) States.negInf).set! 0 oneHotA).getD 0 States.negInf
            = hotS .A
          simp [Array.getD]; rfl
        · show ((Array.replicate (max seq1.size seq2.size + 2) States.negInf).set! 0 oneHotA).getD 0 States.negInf
            = hotS .A
          simp [Array.getD]; rfl
    have heq := runner_eq_serial_optS U ap apE gpo gpe tgpe s seq1 seq2 seq1.size seq2.size P H
      (initMem seq1.size seq2.size : MemS).fuel _ hPre (by
        show ((seq1.size : Int) - 0).toNat + ((seq2.size : Int) - 0).toNat + 1 ≤
          ((seq1.size : Int) - 0).toNat + ((seq2.size : Int) - 0).toNat + 2
        omega)
    show (runner _ false _ _).fault = false ∧ ∃ codes, expandPath seq2.size
      ((runner _ false _ _).pathEntries seq1.size) = some codes ∧ _
    rw [heq]
    exact hser

/-- the sizes named in the task: `DyadicParam 64` (every entry and penalty at most 32 score units) and `len_a + len_b < 2¹⁷` -/
theorem C07Soft_alnRun_opt_default (entry : Entry) (ap : AlnParam SoftF32) (apE : AlnParam ExactScore)
    (hd : DyadicParam 64 ap apE) (gpo gpe tgpe : Int) (s : Nat → Nat → Int)
    (hap : ApOK apE gpo gpe tgpe s) (hgpo : 0 ≤ gpo) (hgpe : 0 ≤ gpe) (htgpe : 0 ≤ tgpe)
    (seq1 seq2 : Array Nat) (h1A : 1 ≤ seq1.size) (h1B : 1 ≤ seq2.size) (hlen : seq1.size + seq2.size < 131072)
    (P : List Col) (hV : ValidCols P seq1.size seq2.size) (hadj : adjOK .A P = true)
    (hmargin : ∀ Q, ValidCols Q seq1.size seq2.size → adjOK .A Q = true → Q ≠ P →
      scoreST s gpo gpe tgpe Q seq1.toList seq2.toList + ((seq2.size : Int) + 1000) <
        scoreST s gpo gpe tgpe P seq1.toList seq2.toList - gpo * (nterm P : Int) -
          (max 0 (max (tgpe - gpe) (tgpe - gpo)) + max 0 (gpe - tgpe))) :
    let r := alnRun entry ap (.seqseq seq1 seq2) seq1.size seq2.size (initMem seq1.size seq2.size)
    r.fault = false ∧
      ∃ codes, expandPath seq2.size (r.pathEntries seq1.size) = some codes ∧ codes.map Col.ofCode = P :=
  C07Soft_alnRun_opt entry 64 ap apE hd gpo gpe tgpe s hap hgpo hgpe htgpe seq1 seq2 h1A h1B (by omega) (by omega) P hV hadj
    hmargin

/-! ## C08 on binary32 — a sequence aligned with itself comes back as the gap-free diagonal -/

/-- **C08 on binary32**: the hypothesis of `C08_identical_pair_diag` with `|seq| + 1000` in place of `|seq|` -/
theorem C08Soft_identical_pair_diag (entry : Entry) (U : Nat) (ap : AlnParam SoftF32) (apE : AlnParam ExactScore)
    (hd : DyadicParam U ap apE) (gpo gpe tgpe : Int) (s : Nat → Nat → Int)
    (hap : ApOK apE gpo gpe tgpe s) (hgpo : 0 ≤ gpo) (hgpe : 0 ≤ gpe) (htgpe : 0 ≤ tgpe)
    (seq : Array Nat) (h1 : 1 ≤ seq.size)
    (hsize : U * (seq.size + seq.size + 1) + seq.size / 1000 + 1 < 16777216) (hlenB : seq.size < 4194304)
    (hdg : ∀ x ∈ seq.toList,
      max 0 (max (tgpe - gpe) (tgpe - gpo)) + max 0 (gpe - tgpe) + ((seq.size : Int) + 1000) <
        s x x + 2 * min (min (2 * gpo) gpe) tgpe)
    (h2 : ∀ x ∈ seq.toList, ∀ y ∈ seq.toList, 2 * s x y ≤ s x x + s y y) :
    let r := alnRun entry ap (.seqseq seq seq) seq.size seq.size (initMem seq.size seq.size)
    r.fault = false ∧
      ∃ codes, expandPath seq.size (r.pathEntries seq.size) = some codes ∧
        codes.map Col.ofCode = List.replicate seq.size .both := by
  have hlen : seq.toList.length = seq.size := by simp
  have hV : ValidCols (diagCols seq.size) seq.size seq.size := validCols_diag _
  refine C07Soft_alnRun_opt entry U ap apE hd gpo gpe tgpe s hap hgpo hgpe htgpe seq seq h1 h1 hsize hlenB
    (diagCols seq.size) hV (adjOK_diag _ _) ?_
  intro Q hQ hQadj hne
  have hM : (0 : Int) ≤ max 0 (max (tgpe - gpe) (tgpe - gpo)) + max 0 (gpe - tgpe) + ((seq.size : Int) + 1000) := by omega
  have := diag_margin s gpo gpe tgpe (min (min (2 * gpo) gpe) tgpe)
    (max 0 (max (tgpe - gpe) (tgpe - gpo)) + max 0 (gpe - tgpe) + ((seq.size : Int) + 1000)) hgpe
    (by omega) (by omega) (by omega) hM seq.toList hdg h2 Q (by rw [hlen]; exact hQ) hQadj (by rw [hlen]; exact hne)
  rw [hlen] at this
  rw [nterm_diag]
  omega

/-- the margin condition with the binary32 slack as a decidable check over the residues of a sequence (table values ×1000) -/
def diagCondS (m : List (List Int)) (gpo gpe tgpe : Int) (seq : List Nat) : Bool :=
  seq.all fun x =>
    decide (max 0 (max (2 * tgpe - 2 * gpe) (2 * tgpe - 2 * gpo)) + max 0 (2 * gpe - 2 * tgpe) +
        ((seq.length : Int) + 1000) < exactSub m x x + 2 * min (2 * gpe) (2 * tgpe)) &&
    seq.all fun y => decide (2 * exactSub m x y ≤ exactSub m x x + exactSub m y y)

/-- **for a dyadic row of the generated table** (side conditions as in `C08_identical_pair_diag_table`) -/
theorem C08Soft_identical_pair_diag_table (entry : Entry) (U : Nat) (ap : AlnParam SoftF32) (m : List (List Int))
    (gpo gpe tgpe : Int) (hd : DyadicParam U ap (exactParam m gpo gpe tgpe))
    (hgpo : 0 ≤ gpo) (hgpe : 0 ≤ gpe) (htgpe : 0 ≤ tgpe) (hge : gpe ≤ 2 * gpo)
    (seq : Array Nat) (h1 : 1 ≤ seq.size)
    (hsize : U * (seq.size + seq.size + 1) + seq.size / 1000 + 1 < 16777216) (hlenB : seq.size < 4194304)
    (hc : diagCondS m gpo gpe tgpe seq.toList = true) :
    let r := alnRun entry ap (.seqseq seq seq) seq.size seq.size (initMem seq.size seq.size)
    r.fault = false ∧
      ∃ codes, expandPath seq.size (r.pathEntries seq.size) = some codes ∧
        codes.map Col.ofCode = List.replicate seq.size .both := by
  unfold diagCondS at hc
  simp only [List.all_eq_true, Bool.and_eq_true, decide_eq_true_eq, Array.length_toList] at hc
  refine C08Soft_identical_pair_diag entry U ap _ hd (2 * gpo) (2 * gpe) (2 * tgpe) (exactSub m) (exactParam_ok m gpo gpe tgpe)
    (by omega) (by omega) (by omega) seq h1 hsize hlenB ?_ (fun x hx y hy => (hc x hx).2 y hy)
  intro x hx
  have := (hc x hx).1
  have e : min (min (2 * (2 * gpo)) (2 * gpe)) (2 * tgpe) = min (2 * gpe) (2 * tgpe) := by omega
  rw [e]; exact this

/-- **default protein parameters in binary32** (type 3 or undefined), sequences of fewer than 2¹⁶ residues -/
theorem C08Soft_identical_pair_diag_protein (entry : Entry) (t : Int) (ht : t = 3 ∨ ¬ (0 ≤ t ∧ t ≤ 4))
    (seq : Array Nat) (h1 : 1 ≤ seq.size) (hlen : seq.size < 65536)
    (hc : diagCondS Gen.mat0 5500 2000 1000 seq.toList = true) :
    let r := alnRun entry (softParamOf 0 t) (.seqseq seq seq) seq.size seq.size (initMem seq.size seq.size)
    r.fault = false ∧
      ∃ codes, expandPath seq.size (r.pathEntries seq.size) = some codes ∧
        codes.map Col.ofCode = List.replicate seq.size .both := by
  have hd : DyadicParam 32 (softParamOf 0 t) (exactParam Gen.mat0 5500 2000 1000) := by
    rcases ht with rfl | ht
    · exact C07Soft_dyadic_protein
    · exact C07Soft_dyadic_protein_undefined t ht
  exact C08Soft_identical_pair_diag_table entry 32 _ Gen.mat0 5500 2000 1000 hd (by decide) (by decide) (by decide) (by decide)
    seq h1 (by omega) (by omega) hc

/-- **DNA / DNA-internal parameters in binary32** -/
theorem C08Soft_identical_pair_diag_dna (entry : Entry) (internal : Bool)
    (seq : Array Nat) (h1 : 1 ≤ seq.size) (hlen : seq.size < 65536)
    (hc : diagCondS Gen.mat3 8000 6000 (if internal then 8000 else 0) seq.toList = true) :
    let r := alnRun entry (softParamOf 1 (if internal then 1 else 0)) (.seqseq seq seq) seq.size seq.size
      (initMem seq.size seq.size)
    r.fault = false ∧
      ∃ codes, expandPath seq.size (r.pathEntries seq.size) = some codes ∧
        codes.map Col.ofCode = List.replicate seq.size .both := by
  cases internal
  · exact C08Soft_identical_pair_diag_table entry 32 _ Gen.mat3 8000 6000 0 C07Soft_dyadic_dna (by decide) (by decide)
      (by decide) (by decide) seq h1 (by omega) (by omega) hc
  · exact C08Soft_identical_pair_diag_table entry 32 _ Gen.mat3 8000 6000 8000 C07Soft_dyadic_dna_internal (by decide)
      (by decide) (by decide) (by decide) seq h1 (by omega) (by omega) hc

/-! ## non-vacuity -/

/-- Z1: the dyadic images: `5.5F = half 11`, `12.0F = half 24`, the sentinel is not a dyadic value of the range -/
example : ofRaw 0x40b00000 = half 11 ∧ ofRaw 0x41400000 = half 24 ∧ (softParamOf 0 3).gpo = half 11 ∧
    (softParamOf 0 3).sub 4 4 = half 24 ∧ (softParamOf 1 0).tgpe = half 0 := by decide +kernel

/-- Z2 on a concrete rectangle (protein defaults, a = (W,C,W), b = (W,W), forward kernel on row 0): the `SoftF32` cells are
`(-FLT_MAX, -FLT_MAX, -1.0)`, `(13.0, …)`, `(6.5, …)`: sentinel where the exact kernel has `none`, `half h` where it has `some (1000·h)` -/
example :
    (kForward (softParamOf 0 3) (.seqseq #[17, 4, 17] #[17, 17]) ⟨0, 1, 0, 2, 2⟩ (hotS .A)).map (fun c => (c.a, c.ga, c.gb)) =
      [(negMax, negMax, half (-2)), (half 26, negMax, negMax), (half 13, negMax, negMax)] ∧
    (kForward (exactParam Gen.mat0 5500 2000 1000) (.seqseq #[17, 4, 17] #[17, 17]) ⟨0, 1, 0, 2, 2⟩ (hot .A)).map
        (fun c => (c.a, c.ga, c.gb)) =
      [(none, none, some (-2000)), (some 26000, none, none), (some 13000, none, none)] := by decide +kernel

/-- Z3: the tie-break term of column 0 of the rectangle `0..2` is `1/1000` rounded (`0x3a83126f`), not a dyadic value of the range,
positive and below `half 1` -/
example : (Score.tie (0 : Int) 2 0 : SoftF32) = ofRaw 0x3a83126f ∧
    SoftF32.lt (ofRaw 0) (Score.tie (0 : Int) 2 0 : SoftF32) = true ∧
    SoftF32.lt (Score.tie (0 : Int) 2 0 : SoftF32) (half 1) = true ∧
    toInt (Score.tie (0 : Int) 2 0 : SoftF32) % ((2 ^ 148 : Nat) : Int) ≠ 0 := by decide +kernel

/-- Z4: protein defaults (type 3), a = (W,C,W), b = (W,W): the alignment `W W, C –, W W` beats the other 24 column lists by more
than the safe margin including the binary32 slack — **the hypotheses of `C07Soft_alnRun_opt` are satisfiable** … -/
example :
    let P : List Col := [.both, .gapB, .both]
    ValidCols P (#[17, 4, 17] : Array Nat).size (#[17, 17] : Array Nat).size ∧ adjOK .A P = true ∧
    (∀ Q, ValidCols Q (#[17, 4, 17] : Array Nat).size (#[17, 17] : Array Nat).size → adjOK .A Q = true → Q ≠ P →
      scoreST (exactSub Gen.mat0) 11000 4000 2000 Q (#[17, 4, 17] : Array Nat).toList (#[17, 17] : Array Nat).toList +
          (((#[17, 17] : Array Nat).size : Int) + 1000) <
        scoreST (exactSub Gen.mat0) 11000 4000 2000 P (#[17, 4, 17] : Array Nat).toList (#[17, 17] : Array Nat).toList -
          11000 * (nterm P : Int) - (max 0 (max (2000 - 4000) (2000 - 11000)) + max 0 (4000 - 2000))) := by
  intro P
  refine ⟨⟨by decide, by decide, by decide⟩, by decide, ?_⟩
  intro Q hV hadj hne
  have hmem : Q ∈ enumCols 5 3 2 := by
    have h := enumCols_complete Q hV.1 5 (by
      have := length_le_cons Q hV.1
      rw [hV.2.1, hV.2.2] at this
      exact this)
    rw [hV.2.1, hV.2.2] at h
    exact h
  have hall : (enumCols 5 3 2).all (fun Q => !(adjOK .A Q) || decide (Q = P) ||
      decide (scoreST (exactSub Gen.mat0) 11000 4000 2000 Q [17, 4, 17] [17, 17] + (2 + 1000) <
        scoreST (exactSub Gen.mat0) 11000 4000 2000 P [17, 4, 17] [17, 17] - 11000 * (nterm P : Int) -
          (max 0 (max (2000 - 4000) (2000 - 11000)) + max 0 (4000 - 2000)))) = true := by
    decide +kernel
  have := List.all_eq_true.mp hall Q hmem
  simp only [Bool.or_eq_true, Bool.not_eq_true', decide_eq_true_eq] at this
  rcases this with (h | h) | h
  · rw [hadj] at h; exact absurd h (by simp)
  · exact absurd h hne
  · exact h

/-- … and the conclusion is what the binary32 model and the exact model both compute (kernel evaluation of `SoftF32`) -/
example :
    ((alnRun .parallel (softParamOf 0 3) (.seqseq #[17, 4, 17] #[17, 17]) 3 2 (initMem 3 2)).pathEntries 3) = [1, -1, 2] ∧
    ((alnRun .parallel (exactParam Gen.mat0 5500 2000 1000) (.seqseq #[17, 4, 17] #[17, 17]) 3 2 (initMem 3 2)).pathEntries 3) =
      [1, -1, 2] ∧
    (expandPath 2 [1, -1, 2]).map (·.map Col.ofCode) = some [.both, .gapB, .both] := by decide +kernel

/-- a longer pair (8 × 8 residues, protein defaults): the binary32 run and the exact run write the same path -/
example :
    ((alnRun .parallel (softParamOf 0 3) (.seqseq #[0, 4, 7, 17, 19, 3, 3, 12] #[0, 4, 7, 17, 3, 3, 12, 5]) 8 8
      (initMem 8 8)).pathEntries 8) =
    ((alnRun .parallel (exactParam Gen.mat0 5500 2000 1000) (.seqseq #[0, 4, 7, 17, 19, 3, 3, 12] #[0, 4, 7, 17, 3, 3, 12, 5])
      8 8 (initMem 8 8)).pathEntries 8) := by decide +kernel

/-- C08 on binary32: the check passes for a sequence over the amino-acid codes (protein) and for a DNA-internal sequence, so
`C08Soft_identical_pair_diag_protein` / `_dna` apply; the runs are what the model computes -/
example : diagCondS Gen.mat0 5500 2000 1000 [0, 4, 7, 17, 19, 3, 3, 12] = true ∧
    diagCondS Gen.mat3 8000 6000 8000 [0, 1, 2, 3, 3, 1] = true := by decide +kernel

example :
    let r := alnRun .parallel (softParamOf 0 3) (.seqseq #[0, 4, 7, 17, 19, 3, 3, 12] #[0, 4, 7, 17, 19, 3, 3, 12]) 8 8
      (initMem 8 8)
    r.fault = false ∧ (expandPath 8 (r.pathEntries 8)).map (·.map Col.ofCode) = some (List.replicate 8 .both) := by
  decide +kernel

example :
    let r := alnRun .serial (softParamOf 1 1) (.seqseq #[0, 1, 2, 3, 3, 1] #[0, 1, 2, 3, 3, 1]) 6 6 (initMem 6 6)
    r.fault = false ∧ (expandPath 6 (r.pathEntries 6)).map (·.map Col.ofCode) = some (List.replicate 6 .both) := by
  decide +kernel

/-- every standard residue code (0..19) of the protein defaults leaves a margin of 9000 − |seq| (units 1/2000) with the binary32 slack:
sequences of up to 8999 standard residues are covered -/
example : (List.range 20).all (fun x =>
    decide (max 0 (max (2 * 1000 - 2 * 2000) (2 * 1000 - 2 * 5500)) + max 0 (2 * 2000 - 2 * 1000) + (8999 + 1000) <
      exactSub Gen.mat0 x x + 2 * min (2 * 2000) (2 * 1000)) &&
    (List.range 20).all fun y => decide (2 * exactSub Gen.mat0 x y ≤ exactSub Gen.mat0 x x + exactSub Gen.mat0 y y)) = true := by
  decide +kernel

/-- with the plain DNA penalties (`tgpe = 0 < gpe = 6`) the safe margin `max(0, gpe − tgpe) = 6.0` already exceeds the match score
5.0: the hypothesis fails for every sequence (also on the exact carrier: `diagCond`), the theorem is silent there -/
example : diagCondS Gen.mat3 8000 6000 0 [0] = false ∧ diagCond Gen.mat3 8000 6000 0 [0] = false := by decide +kernel

end Kalign
