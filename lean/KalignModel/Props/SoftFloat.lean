import KalignModel.Lemmas.SoftFloat
import KalignModel.Lemmas.SoftMon
import KalignModel.Lemmas.SoftDiv
import KalignModel.Lemmas.SoftParam
import KalignModel.Props.C07
/-!
# Properties of the software binary32 `SoftF32` (Model/SoftFloat.lean)

`SoftF32` is tied to the hardware `float` by the correspondence ops `f32` / `f32_of` (bit-for-bit, including NaN payloads) and
to the whole program by `kalign_sys_soft`.  The theorems below are about its values; they are what the opaque `Float32` cannot
offer.

Notation: `toInt x` = the value of a finite `x` in units of 2⁻¹⁴⁹ (an integer), `magVal x.mag = |toInt x|`,
`absLe x N` = "`x` is finite and `|x| ≤ N`" (`Lemmas/SoftFloat.lean`), `key` = the order key used by the comparisons,
`rnd` = round-to-nearest-even on the value grid (`RneAt`: floor pattern, nearest, ties to the even pattern).

* **(a) basic laws**: `add_comm` (non-NaN operands; with a NaN operand x86 returns the *first* operand's payload, so addition is
  not commutative on NaNs), `lt_irrefl`, `lt_trans`, `lt_total`, `gt_eq_lt`, `lt_iff_toInt` (the comparison is the comparison of
  the values), `add_mono_left`, `add_mono_right` (round-to-nearest is monotone; holds also when a result overflows to ±∞),
  `add_zero` (for finite `x ≠ -0`; `-0 + 0 = +0`), `add_negZero`, exactness: `ofNat_exact`, `ofInt_exact`, `add_ofInt`, `sub_ofInt`.
* **(b) the sentinel**: `negInf_add`, `add_negInf` (`-FLT_MAX + x = -FLT_MAX` for finite `|x| < 2¹⁰³`), `gt_negInf`, `gt_nan_left`,
  `gt_nan_right`, and `negInf_add_negInf` (`-FLT_MAX + -FLT_MAX = -∞`, which is *below* the sentinel).
* **(c) boundedness**: `add_bounded`, `sub_bounded` and the general `add_absLe` / `sub_absLe`.
* **(d) the Hirschberg monitor** (namespace `Kalign`): for sequence–sequence operands with `len_a + len_b < 2²²` and any parameter set
  `aln_param_init` admits (`paramOfTableS`: penalties in `[0, 1e6]`, scores from the generated matrices, bounds by `decide`):
  `C07Soft_param_bounded`, `C07Soft_tie_bounded`, `C07Soft_forward_cells` / `C07Soft_backward_cells` (every kernel cell is
  sentinel-like or finite and bounded, in the finiteness pattern of the exact kernel), `C07Soft_step_contract` (on a feasible
  rectangle the meetup leaves its sentinel and its answer satisfies the contract; both sub-rectangles are feasible again),
  `C07Soft_seqseq_mon` (**`mon = true`, no hypothesis about values**), `C07Soft_seqseq_runner_eq_serial`,
  `C07Soft_seqseq_columns_valid` (the path is well-shaped and expands to a valid column list, either entry point).
  The profile kernels (sequence–profile, profile–profile) are not covered: see `Props/C05PipelineSoft.lean`.
-/
set_option exponentiation.threshold 512
namespace Kalign.SoftF32

/-! ## (a) basic laws -/

theorem add_comm {a b : SoftF32} (ha : a.isNaN = false) (hb : b.isNaN = false) : add a b = add b a := by
  unfold add
  rw [ha, hb]
  simp only [Bool.false_eq_true, if_false]
  by_cases hai : a.isInf = true
  · by_cases hbi : b.isInf = true
    · rw [hai, hbi]
      simp only [if_true, Bool.true_and]
      by_cases hs : a.sign = b.sign
      · have : a = b := eq_of_sign_mag hs (by rw [(isInf_iff a).1 hai, (isInf_iff b).1 hbi])
        subst this; rfl
      · have h1 : (a.sign != b.sign) = true := by simpa using hs
        have h2 : (b.sign != a.sign) = true := by simpa using fun h => hs h.symm
        rw [h1, h2]; rfl
    · simp [hai, hbi]
  · by_cases hbi : b.isInf = true
    · simp [hai, hbi]
    · have h1 : a.isInf = false := by simpa using hai
      have h2 : b.isInf = false := by simpa using hbi
      simp only [h1, h2, Bool.false_eq_true, if_false]
      rw [addFinite_eq, addFinite_eq, Int.add_comm, Bool.and_comm]

theorem gt_eq_lt (a b : SoftF32) : gt a b = lt b a := rfl
theorem ge_eq_le (a b : SoftF32) : ge a b = le b a := rfl

theorem lt_irrefl (a : SoftF32) : lt a a = false := by simp [lt]

theorem lt_trans {a b c : SoftF32} (h1 : lt a b = true) (h2 : lt b c = true) : lt a c = true := by
  simp only [lt, Bool.and_eq_true, Bool.not_eq_true', decide_eq_true_eq] at *
  exact ⟨⟨h1.1.1, h2.1.2⟩, by omega⟩

theorem lt_asymm {a b : SoftF32} (h : lt a b = true) : lt b a = false := by
  simp only [lt, Bool.and_eq_true, Bool.not_eq_true', decide_eq_true_eq] at h
  simp only [lt, h.1.1, h.1.2, Bool.not_false, Bool.true_and, decide_eq_false_iff_not]
  omega

/-- on non-NaN values exactly one of `a < b`, `a == b`, `b < a` holds (this is totality; exclusiveness is `lt_asymm`, `lt_irrefl`) -/
theorem lt_total {a b : SoftF32} (ha : a.isNaN = false) (hb : b.isNaN = false) :
    lt a b = true ∨ beq a b = true ∨ lt b a = true := by
  simp only [lt, beq, ha, hb, Bool.not_false, Bool.true_and, decide_eq_true_eq]
  omega

/-- the comparison compares the values -/
theorem lt_iff_toInt {a b : SoftF32} (ha : a.isNaN = false) (hb : b.isNaN = false) :
    lt a b = true ↔ toInt a < toInt b := by
  simp only [lt, ha, hb, Bool.not_false, Bool.true_and, decide_eq_true_eq]
  exact key_lt_iff a b

theorem le_iff_toInt {a b : SoftF32} (ha : a.isNaN = false) (hb : b.isNaN = false) :
    le a b = true ↔ toInt a ≤ toInt b := by
  simp only [le, ha, hb, Bool.not_false, Bool.true_and, decide_eq_true_eq]
  exact key_le_iff a b

/-- **monotonicity of addition** (first argument): round-to-nearest-even is monotone.  `a, b, c` finite; the results may be ±∞ -/
theorem add_mono_left {a b c : SoftF32} (ha : a.isFinite = true) (hb : b.isFinite = true) (hc : c.isFinite = true)
    (h : le a b = true) : le (add a c) (add b c) = true := by
  rw [le_iff_toInt (isNaN_of_finite ha) (isNaN_of_finite hb)] at h
  simp only [le, add_not_nan ha hc, add_not_nan hb hc, Bool.not_false, Bool.true_and, decide_eq_true_eq]
  rw [key_add ha hc, key_add hb hc]
  exact rndKey_mono (by omega)

theorem add_mono_right {a b c : SoftF32} (ha : a.isFinite = true) (hb : b.isFinite = true) (hc : c.isFinite = true)
    (h : le a b = true) : le (add c a) (add c b) = true := by
  rw [add_comm (isNaN_of_finite hc) (isNaN_of_finite ha), add_comm (isNaN_of_finite hc) (isNaN_of_finite hb)]
  exact add_mono_left ha hb hc h

theorem sub_mono_left {a b c : SoftF32} (ha : a.isFinite = true) (hb : b.isFinite = true) (hc : c.isFinite = true)
    (h : le a b = true) : le (sub a c) (sub b c) = true := by
  rw [sub_of_not_nan (isNaN_of_finite ha) (isNaN_of_finite hc), sub_of_not_nan (isNaN_of_finite hb) (isNaN_of_finite hc)]
  exact add_mono_left ha hb (by rw [isFinite_neg]; exact hc) h

def negZero : SoftF32 := ofRaw 0x80000000

/-- `x + 0 = x` for every finite `x` except `-0` (`-0 + 0 = +0` in round-to-nearest) -/
theorem add_zero {x : SoftF32} (hf : x.isFinite = true) (hx : x ≠ negZero) : add x zero = x := by
  have hz : zero.isFinite = true := by decide
  have hz0 : toInt zero = 0 := by decide
  have hzs : zero.sign = false := by decide
  rw [add_eq_packZ hf hz, hz0, hzs, Int.add_zero, Bool.and_false]
  have hm := (isFinite_iff x).1 hf
  unfold packZ
  by_cases h0 : x.mag = 0
  · have ht : toInt x = 0 := by
      unfold toInt; rw [h0]; simp
    rw [if_pos ht]
    have hs : x.sign = false := by
      cases hs : x.sign
      · rfl
      · exact absurd (eq_of_sign_mag (y := negZero) (by rw [hs]; decide) (by rw [h0]; decide)) hx
    apply eq_of_sign_mag
    · rw [sign_pack _ _ (by decide), hs]
    · rw [mag_pack _ _ (by decide), h0]
  · have hv : magVal x.mag ≠ 0 := fun h => h0 (magVal_eq_zero.1 h)
    have hn := natAbs_toInt x
    have ht : toInt x ≠ 0 := by omega
    rw [if_neg ht, hn, rnd_magVal, Nat.min_eq_left (by simp only [infMag]; omega)]
    have hsg : decide (toInt x < 0) = x.sign := by
      unfold toInt
      cases x.sign
      · simp
      · simp; omega
    rw [hsg]
    exact pack_sign_mag x

theorem add_negZero_zero : add negZero zero = zero := by decide

/-- `(float)n` is exact for `n < 2²⁴` -/
theorem ofNat_exact {n : Nat} (hn : n < 16777216) : (ofNat n).isFinite = true ∧ toInt (ofNat n) = (n * 2 ^ 149 : Nat) := by
  have h : ofNat n = ofInt n := by
    unfold ofNat ofInt
    have : decide ((n : Int) < 0) = false := by simp
    rw [this]; rfl
  rw [h]
  have hk : (n : Int).natAbs < 16777216 := by simpa using hn
  refine ⟨(isFinite_iff _).2 (ofInt_finite hk).1, ?_⟩
  rw [toInt_ofInt hk, Int.natCast_mul]

/-- `(float)i` is exact for `|i| < 2²⁴` -/
theorem ofInt_exact {i : Int} (hi : i.natAbs < 16777216) :
    (ofInt i).isFinite = true ∧ toInt (ofInt i) = i * ((2 ^ 149 : Nat) : Int) :=
  ⟨(isFinite_iff _).2 (ofInt_finite hi).1, toInt_ofInt hi⟩

/-- **addition of small integers is exact** -/
theorem add_ofInt {i j : Int} (hi : i.natAbs < 16777216) (hj : j.natAbs < 16777216) (hij : (i + j).natAbs < 16777216) :
    add (ofInt i) (ofInt j) = ofInt (i + j) := by
  rw [add_eq_packZ (ofInt_exact hi).1 (ofInt_exact hj).1, toInt_ofInt hi, toInt_ofInt hj, ← Int.add_mul]
  apply packZ_int hij
  intro h0
  rw [(ofInt_finite hi).2.2, (ofInt_finite hj).2.2]
  by_cases h : i < 0
  · have : ¬ j < 0 := by omega
    simp [this]
  · simp [h]

/-- **subtraction of small integers is exact** -/
theorem sub_ofInt {i j : Int} (hi : i.natAbs < 16777216) (hj : j.natAbs < 16777216) (hij : (i - j).natAbs < 16777216) :
    sub (ofInt i) (ofInt j) = ofInt (i - j) := by
  rw [sub_eq_packZ (ofInt_exact hi).1 (ofInt_exact hj).1, toInt_ofInt hi, toInt_ofInt hj, ← Int.sub_mul]
  apply packZ_int hij
  intro h0
  rw [(ofInt_finite hi).2.2, (ofInt_finite hj).2.2]
  by_cases h : i < 0
  · have : j < 0 := by omega
    simp [this]
  · simp [h]

/-! ## (b) the sentinel `-FLT_MAX` (`Score.negInf`) -/

theorem negInf_eq : (Score.negInf : SoftF32) = negMax := rfl

/-- `-FLT_MAX + x = -FLT_MAX` for every finite `x` with `|x| < 2¹⁰³` -/
theorem negInf_add {x : SoftF32} (hf : x.isFinite = true) (hx : magVal x.mag < 2 ^ 103 * 2 ^ 149) :
    Score.add (Score.negInf : SoftF32) x = Score.negInf :=
  negMax_add hf hx

theorem add_negInf {x : SoftF32} (hf : x.isFinite = true) (hx : magVal x.mag < 2 ^ 103 * 2 ^ 149) :
    Score.add x (Score.negInf : SoftF32) = Score.negInf :=
  add_negMax hf hx

/-- the same with the bound stated by `absLe` -/
theorem negInf_add_of_absLe {x : SoftF32} {N : Nat} (hx : absLe x N) (hN : N < 2 ^ 103) :
    Score.add (Score.negInf : SoftF32) x = Score.negInf := by
  apply negInf_add hx.finite
  have := hx.2
  have : N * 2 ^ 149 < 2 ^ 103 * 2 ^ 149 := Nat.mul_lt_mul_of_pos_right hN (by decide)
  omega

/-- `-FLT_MAX − x = -FLT_MAX` -/
theorem negInf_sub_of_absLe {x : SoftF32} {N : Nat} (hx : absLe x N) (hN : N < 2 ^ 103) :
    Score.sub (Score.negInf : SoftF32) x = Score.negInf := by
  show sub negMax x = negMax
  rw [sub_of_not_nan (by decide) (isNaN_of_finite hx.finite)]
  exact negInf_add_of_absLe (neg_absLe hx) hN

/-- two sentinels add up to `-∞`, which is below the sentinel -/
theorem negInf_add_negInf : Score.add (Score.negInf : SoftF32) Score.negInf = ofRaw 0xff800000 := by decide

/-- every non-NaN value other than `-FLT_MAX` and `-∞` beats the sentinel -/
theorem gt_negInf {y : SoftF32} (hn : y.isNaN = false) (h1 : y ≠ negMax) (h2 : y ≠ ofRaw 0xff800000) :
    Score.gt y (Score.negInf : SoftF32) = true := by
  show lt negMax y = true
  have hk : negMax.key = -2139095039 := by decide
  simp only [lt, hn, show negMax.isNaN = false by decide, Bool.not_false, Bool.true_and, decide_eq_true_eq, hk]
  have hm : ¬ (2139095040 < y.mag) := by rw [← isNaN_iff, hn]; simp
  unfold key
  cases hs : y.sign
  · simp only [Bool.false_eq_true, if_false]; omega
  · simp only [if_true]
    have : y.mag ≠ 2139095039 := fun h => h1 (eq_of_sign_mag (by rw [hs]; decide) (by rw [h]; decide))
    have : y.mag ≠ 2139095040 := fun h => h2 (eq_of_sign_mag (by rw [hs]; decide) (by rw [h]; decide))
    omega

/-- in particular every finite value above `-FLT_MAX` -/
theorem gt_negInf_of_absLe {y : SoftF32} {N : Nat} (hy : absLe y N) (hN : N < 2 ^ 127) :
    Score.gt y (Score.negInf : SoftF32) = true := by
  apply gt_negInf (isNaN_of_finite hy.finite)
  · intro h
    have h2 := hy.2
    rw [h, mag_negMax, magVal_fltMax] at h2
    have : N * 2 ^ 149 < 2 ^ 127 * 2 ^ 149 := Nat.mul_lt_mul_of_pos_right hN (by decide)
    omega
  · intro h
    have h1 := hy.1
    rw [h] at h1
    exact absurd h1 (by decide)

theorem gt_nan_left {x y : SoftF32} (h : x.isNaN = true) : Score.gt x y = false := by
  show lt y x = false
  simp [lt, h]

theorem gt_nan_right {x y : SoftF32} (h : y.isNaN = true) : Score.gt x y = false := by
  show lt y x = false
  simp [lt, h]

/-- the sentinel never beats anything that is not below it: `gt negInf y = false` unless `y = -∞` (or NaN: then false too) -/
theorem negInf_not_gt {y : SoftF32} (h2 : y ≠ ofRaw 0xff800000) : Score.gt (Score.negInf : SoftF32) y = false := by
  show lt y negMax = false
  by_cases hn : y.isNaN = true
  · simp [lt, hn]
  have hn' : y.isNaN = false := by simpa using hn
  have hk : negMax.key = -2139095039 := by decide
  simp only [lt, hn', show negMax.isNaN = false by decide, Bool.not_false, Bool.true_and, hk, decide_eq_false_iff_not]
  have hm : ¬ (2139095040 < y.mag) := by rw [← isNaN_iff, hn']; simp
  unfold key
  cases hs : y.sign
  · simp
  · simp only [if_true]
    have : y.mag ≠ 2139095040 := fun h => h2 (eq_of_sign_mag (by rw [hs]; decide) (by rw [h]; decide))
    omega

/-! ## (c) boundedness -/

/-- `|a| ≤ k·2²⁰`, `|b| ≤ 2²⁰`, `k + 1 < 2²⁴` ⟹ `a + b` is finite and `|a + b| ≤ (k+1)·2²⁰` -/
theorem add_bounded {a b : SoftF32} {k : Nat} (ha : absLe a (k * 2 ^ 20)) (hb : absLe b (2 ^ 20)) (hk : k + 1 < 2 ^ 24) :
    absLe (add a b) ((k + 1) * 2 ^ 20) := by
  have := add_absLe (c := k + 1) (t := 20) ha hb (by rw [Nat.add_mul, Nat.one_mul]) (by simpa using hk) (by decide)
  rwa [show k * 2 ^ 20 + 2 ^ 20 = (k + 1) * 2 ^ 20 by rw [Nat.add_mul, Nat.one_mul]] at this

theorem sub_bounded {a b : SoftF32} {k : Nat} (ha : absLe a (k * 2 ^ 20)) (hb : absLe b (2 ^ 20)) (hk : k + 1 < 2 ^ 24) :
    absLe (sub a b) ((k + 1) * 2 ^ 20) := by
  have := sub_absLe (c := k + 1) (t := 20) ha hb (by rw [Nat.add_mul, Nat.one_mul]) (by simpa using hk) (by decide)
  rwa [show k * 2 ^ 20 + 2 ^ 20 = (k + 1) * 2 ^ 20 by rw [Nat.add_mul, Nat.one_mul]] at this

/-! non-vacuity: `1e6` (the penalty cap) is within `2²⁰`; `5000.0 + 1e6` is bounded by `2·2²⁰`; the sentinel absorbs `1e6` -/
example : absLe (ofRaw 0x49742400) (2 ^ 20) := by unfold absLe; decide
example : absLe (add (ofRaw 0x459c4000) (ofRaw 0x49742400)) ((1 + 1) * 2 ^ 20) :=
  add_bounded (k := 1) (by unfold absLe; decide) (by unfold absLe; decide) (by decide)
example : Score.add (Score.negInf : SoftF32) (ofRaw 0x49742400) = Score.negInf :=
  negInf_add_of_absLe (N := 2 ^ 20) (by unfold absLe; decide) (by decide)
example : add (ofInt 16777215) (ofInt (-16777214)) = ofInt 1 := add_ofInt (by decide) (by decide) (by decide)
example : le (add (ofRaw 0x3f800000) (ofRaw 0x4b800000)) (add (ofRaw 0x40000000) (ofRaw 0x4b800000)) = true :=
  add_mono_left (by decide) (by decide) (by decide) (by decide)

end Kalign.SoftF32

/-! ## (d) the Hirschberg monitor on `SoftF32`: sequence–sequence operands -/
namespace Kalign
open SoftF32 Pipeline

/-- every parameter set `aln_param_init` admits is finite and bounded by 2²⁰ (penalties: table values or user values in `[0, 1e6]`;
scores: the generated matrices, checked by `decide`) -/
theorem C07Soft_param_bounded {bt : Nat} {t : Int} {gpo gpe tgpe : SoftF32} {ap : AlnParam SoftF32}
    (h : paramOfTableS bt t gpo gpe tgpe = some ap) : ApBnd ap :=
  paramOfTableS_bnd h

/-- the tie-break terms of all columns below 2²² are finite and at most 2²⁰ (in fact at most 2¹⁴) -/
theorem C07Soft_tie_bounded (lenB : Nat) (h : lenB < 4194304) : TieBnd lenB :=
  fun sb eb i h1 h2 h3 => tie_bound sb eb i h1 h2 (by omega)

/-- **every cell of the forward kernel** started from the one-hot state of kind `fk` is sentinel-like (`-FLT_MAX` or `-∞`) exactly where
the exact kernel has `−∞`, and finite with magnitude at most `2(rows + k)·2²⁰` elsewhere -/
theorem C07Soft_forward_cells (ap : AlnParam SoftF32) (hap : ApBnd ap) (seq1 seq2 : Array Nat) (r : Rect)
    (hb : r.startb < r.endb) (fk : Kind) (hL : 2 * ((r.enda - r.starta) + (r.endb - r.startb)) + 2 < 16777216)
    (k : Nat) (hk : k ≤ r.endb - r.startb) :
    ∃ cell, (kForward ap (.seqseq seq1 seq2) r ((realKernels ap (.seqseq seq1 seq2) 0 0).st fk))[k]? = some cell ∧
      StCls (2 * ((r.enda - r.starta) + k)) cell (absTab (cZ (r.endb - r.startb)) (hot fk) (r.enda - r.starta) k) := by
  have h := genTab_cls (ssGaInit ap (r.startb == 0)) (absGaInit (cZ (r.endb - r.startb)))
    (ssGaInit_rel ap hap _ _) (r.endb - r.startb) ((realKernels ap (.seqseq seq1 seq2) 0 0).st fk) (hot fk)
    (ssOpsF ap seq1 seq2 r) (absOps (cZ (r.endb - r.startb)))
    (fun p => ssOpsF_rel ap hap seq1 seq2 r _ p) 0 ((r.enda - r.starta) + (r.endb - r.startb)) (by omega) (stCls_hot fk)
    (r.enda - r.starta) k (by omega)
  rw [Nat.zero_add] at h
  refine ⟨_, ?_, h⟩
  show (ssForward ap seq1 seq2 r _)[k]? = _
  rw [ssForward_eq_genTab ap seq1 seq2 r hb, List.getElem?_map, List.getElem?_range (by omega)]
  rfl

/-- the same for the backward kernel (cells counted from the far end) -/
theorem C07Soft_backward_cells (ap : AlnParam SoftF32) (hap : ApBnd ap) (seq1 seq2 : Array Nat) (r : Rect)
    (hb : r.startb < r.endb) (bk : Kind) (hL : 2 * ((r.enda - r.starta) + (r.endb - r.startb)) + 2 < 16777216)
    (k : Nat) (hk : k ≤ r.endb - r.startb) :
    ∃ cell, (kBackward ap (.seqseq seq1 seq2) r ((realKernels ap (.seqseq seq1 seq2) 0 0).st bk))[k]? = some cell ∧
      StCls (2 * ((r.enda - r.starta) + (r.endb - r.startb - k))) cell
        (absTab (cZ (r.endb - r.startb)) (hot bk) (r.enda - r.starta) (r.endb - r.startb - k)) := by
  have h := genTab_cls (ssGaInit ap (r.endb == r.lenB)) (absGaInit (cZ (r.endb - r.startb)))
    (ssGaInit_rel ap hap _ _) (r.endb - r.startb) ((realKernels ap (.seqseq seq1 seq2) 0 0).st bk) (hot bk)
    (ssOpsB ap seq1 seq2 r) (absOps (cZ (r.endb - r.startb)))
    (fun p => ssOpsB_rel ap hap seq1 seq2 r _ p) 0 ((r.enda - r.starta) + (r.endb - r.startb)) (by omega) (stCls_hot bk)
    (r.enda - r.starta) (r.endb - r.startb - k) (by omega)
  rw [Nat.zero_add] at h
  refine ⟨_, ?_, h⟩
  show (ssBackward ap seq1 seq2 r _)[k]? = _
  rw [ssBackward_eq_genTab ap seq1 seq2 r hb, map_range_reverse, List.getElem?_map, List.getElem?_range (by omega)]
  rfl

/-- **one level of the recursion**: on a feasible rectangle (`Feas`: a complete column list between the boundary kinds exists) the
meetup's answer satisfies the meetup contract and both sub-rectangles are feasible again -/
theorem C07Soft_step_contract (ap : AlnParam SoftF32) (hap : ApBnd ap) (seq1 seq2 : Array Nat) (lenB : Nat)
    (hlenB : lenB < 4194304) (fk bk : Kind) (sa m1 m2 sb n : Nat) (hm2 : 1 ≤ m2) (hn : 1 ≤ n) (heb : sb + n ≤ lenB)
    (hlen : m1 + m2 + 2 * n + 2 < 8388608) (hfeas : Feas fk bk (m1 + m2) n) :
    let K := realKernels ap (.seqseq seq1 seq2) 0 0
    let rF : Rect := ⟨sa, sa + m1, sb, sb + n, lenB⟩
    let rB : Rect := ⟨sa + m1, sa + m1 + m2, sb, sb + n, lenB⟩
    let r := kMeetup ap (.seqseq seq1 seq2) rF (sa + m1) (kForward ap (.seqseq seq1 seq2) rF (K.st fk))
      (kBackward ap (.seqseq seq1 seq2) rB (K.st bk))
    meetupContract fk bk (sa : Int) ((sa + m1 + m2 : Nat) : Int) (sb : Int) ((sb + n : Nat) : Int)
        ((sa + m1 : Nat) : Int) r.meet r.transition = true ∧
    ChildrenFeas fk bk (sa : Int) ((sa + m1 + m2 : Nat) : Int) (sb : Int) ((sb + n : Nat) : Int)
        ((sa + m1 : Nat) : Int) r.meet r.transition :=
  ss_step_contract ap hap seq1 seq2 lenB (C07Soft_tie_bounded lenB hlenB) fk bk sa m1 m2 sb n hm2 hn heb hlen hfeas _ _
    (stCls_hot fk) (stCls_hot bk)

/-- **(d), sequence–sequence operands: the monitor stays true** — `PipelineMonHyp`'s statement for one merge of two sequences on the
`SoftF32` carrier, for every parameter set `aln_param_init` admits and `len_a + len_b < 2²²`; no hypothesis about score values -/
theorem C07Soft_seqseq_mon {bt : Nat} {t : Int} {gpo gpe tgpe : SoftF32} {ap : AlnParam SoftF32}
    (hp : paramOfTableS bt t gpo gpe tgpe = some ap) (seq1 seq2 : Array Nat) (lenA lenB : Nat)
    (hA : 1 ≤ lenA) (hB : 1 ≤ lenB) (hlen : lenA + lenB < 4194304) :
    (alnRun .serial ap (.seqseq seq1 seq2) lenA lenB (initMem lenA lenB)).mon = true :=
  ss_alnRun_mon ap (paramOfTableS_bnd hp) seq1 seq2 lenA lenB hA hB hlen (C07Soft_tie_bounded lenB (by omega))

/-- `aln_runner` (with its fall-through) computes the same memory as `aln_runner_serial` -/
theorem C07Soft_seqseq_runner_eq_serial {bt : Nat} {t : Int} {gpo gpe tgpe : SoftF32} {ap : AlnParam SoftF32}
    (hp : paramOfTableS bt t gpo gpe tgpe = some ap) (seq1 seq2 : Array Nat) (lenA lenB : Nat)
    (hA : 1 ≤ lenA) (hB : 1 ≤ lenB) (hlen : lenA + lenB < 4194304) :
    alnRun .parallel ap (.seqseq seq1 seq2) lenA lenB (initMem lenA lenB) =
      alnRun .serial ap (.seqseq seq1 seq2) lenA lenB (initMem lenA lenB) := by
  have hm := C07Soft_seqseq_mon hp seq1 seq2 lenA lenB hA hB hlen
  have hf := alnRun_serial_no_fault ap (.seqseq seq1 seq2) lenA lenB
  unfold alnRun at hm hf ⊢
  exact runner_eq_runnerSerial_of_mon _ _ _ hf hm

/-- **the Hirschberg path is well-shaped and expands to a valid column list** (either entry point), unconditionally -/
theorem C07Soft_seqseq_columns_valid (entry : Entry) {bt : Nat} {t : Int} {gpo gpe tgpe : SoftF32} {ap : AlnParam SoftF32}
    (hp : paramOfTableS bt t gpo gpe tgpe = some ap) (seq1 seq2 : Array Nat) (lenA lenB : Nat)
    (hA : 1 ≤ lenA) (hB : 1 ≤ lenB) (hlen : lenA + lenB < 4194304) :
    let path := (alnRun entry ap (.seqseq seq1 seq2) lenA lenB (initMem lenA lenB)).pathEntries lenA
    pathOK lenB path = true ∧
    ∃ codes, expandPath lenB path = some codes ∧ ValidCols (codes.map Col.ofCode) lenA lenB :=
  C07_columns_valid entry ap (.seqseq seq1 seq2) lenA lenB hA hB (alnRun_serial_no_fault ap _ lenA lenB)
    (C07Soft_seqseq_mon hp seq1 seq2 lenA lenB hA hB hlen)

/-! non-vacuity: the default protein parameters are admitted; a concrete run (kernel evaluation of the `SoftF32` model) -/
example : ∃ ap, paramOfTableS 1 (-1) (ofRaw 0xbf800000) (ofRaw 0xbf800000) (ofRaw 0xbf800000) = some ap := by
  cases h : paramOfTableS 1 (-1) (ofRaw 0xbf800000) (ofRaw 0xbf800000) (ofRaw 0xbf800000) with
  | some ap => exact ⟨ap, rfl⟩
  | none => exact absurd h (by decide)

/-- the kernel computes with `SoftF32`: `1 + 2 = 3`, `1 / 3`, `0.1f · 10 = 1` (rounded), and a whole Hirschberg run with the default
DNA parameters passes the monitor by kernel evaluation (the theorem above proves it for all operands) -/
example : SoftF32.add (ofRaw 0x3f800000) (ofRaw 0x40000000) = ofRaw 0x40400000 := by decide
example : SoftF32.div (ofRaw 0x3f800000) (ofRaw 0x40400000) = ofRaw 0x3eaaaaab := by decide
example : SoftF32.mul (ofRaw 0x3dcccccd) (ofRaw 0x41200000) = ofRaw 0x3f800000 := by decide

def exApS : AlnParam SoftF32 :=
  (paramOfTableS 0 (-1) (ofRaw 0xbf800000) (ofRaw 0xbf800000) (ofRaw 0xbf800000)).getD ⟨#[], zero, zero, zero⟩

set_option maxRecDepth 100000 in
example : (alnRun .serial exApS (.seqseq #[0, 1, 2, 3] #[0, 2, 3, 3, 1]) 4 5 (initMem 4 5)).mon = true := by decide +kernel

end Kalign
