import KalignModel.Props.C05Index
/-!
# C05 (slice AD) — non-vacuity of the index theorems

One concrete small instance per item: the precondition holds and the checked twin is *evaluated* and compared with the
totalised function — by `decide +kernel` for the light instances on the exact score carrier, by `#guard` (compiled
evaluation, fails the build when false) for the heavier ones and for the `Float32` functions, whose arithmetic the
kernel cannot run.  The negative instances show that the twins do return `none` when an index leaves its array — the
theorems are not true by a vacuous construction of the twins.
-/
namespace Kalign.IdxEx
open Kalign Kalign.Pipeline

/-- a 23 × 23 exact-carrier parameter set -/
def ap : AlnParam ExactScore :=
  { subm := (Array.range 23).map fun i => (Array.range 23).map fun j => if i = j then some 10000 else some (-8000)
    gpo := some 16000, gpe := some 12000, tgpe := some 0 }

example : ap.wf := by decide +kernel

def s1 : Array Nat := #[0, 1, 2, 22]
def s2 : Array Nat := #[0, 2, 22, 3, 1]
def p1 : Array ExactScore := setGapPenalties (makeProfile ap s1) 1
def p2 : Array ExactScore := setGapPenalties (makeProfile ap s2) 1
def rect : Rect := ⟨0, 4, 0, 5, 5⟩
def st0 : States ExactScore := oneHotA

/-! ## 1. kernels -/
example : (Operands.seqseq s1 s2 : Operands ExactScore).lens? = some (4, 5) := by decide +kernel
#guard (Operands.seqprof p1 s2 1 : Operands ExactScore).lens? == some (4, 5)
#guard (Operands.profprof p1 p2 : Operands ExactScore).lens? == some (4, 5)
example : rect.valid 4 5 = true := by decide
example : (kForwardC ap (.seqseq s1 s2) rect st0 == some (kForward ap (.seqseq s1 s2) rect st0)) = true := by
  decide +kernel
#guard kBackwardC ap (.seqseq s1 s2) rect st0 == some (kBackward ap (.seqseq s1 s2) rect st0)
#guard kForwardC ap (.seqprof p1 s2 1) rect st0 == some (kForward ap (.seqprof p1 s2 1) rect st0)
#guard kBackwardC ap (.seqprof p1 s2 1) rect st0 == some (kBackward ap (.seqprof p1 s2 1) rect st0)
#guard kForwardC ap (.profprof p1 p2) rect st0 == some (kForward ap (.profprof p1 p2) rect st0)
#guard kBackwardC ap (.profprof p1 p2) rect st0 == some (kBackward ap (.profprof p1 p2) rect st0)
#guard (kMeetupC ap (.profprof p1 p2) rect 2 (kForward ap (.profprof p1 p2) ⟨0, 2, 0, 5, 5⟩ st0)
    (kBackward ap (.profprof p1 p2) ⟨2, 4, 0, 5, 5⟩ st0)).isSome
/-- a rectangle one column too wide (`endb = 6 > len_b = 5`): the twin reports the out-of-range read of `seq2[5]` /
of profile column 7 -/
example : (kForwardC ap (.seqseq s1 s2) ⟨0, 4, 0, 6, 6⟩ st0).isNone = true := by decide +kernel
#guard (kBackwardC ap (.profprof p1 p2) ⟨0, 4, 0, 6, 6⟩ st0).isNone
/-- a residue code 23 (outside the substitution matrix) -/
example : (kForwardC ap (.seqseq #[0, 23] s2) ⟨0, 2, 0, 5, 5⟩ st0).isNone = true := by decide +kernel

/-! ## 2. controller -/
#guard (alnRunC .serial ap (.seqseq s1 s2) 4 5 (initMem 4 5)).map (·.path) ==
    some (alnRun .serial ap (.seqseq s1 s2) 4 5 (initMem 4 5)).path
#guard (alnRunC .parallel ap (.profprof p1 p2) 4 5 (initMem 4 5)).map (·.path) ==
    some (alnRun .parallel ap (.profprof p1 p2) 4 5 (initMem 4 5)).path
#guard (alnRunC .parallel ap (.profprof p1 p2) 4 5 (initMem 4 5)).map (·.mon) == some true
-- state arrays without a slot 0: the twin reports the read of `f[0]`
#guard (alnRunC .serial ap (.seqseq s1 s2) 4 5 { (initMem 4 5 : Mem _ ExactScore) with f := #[] }).isNone

/-! ## 3. profiles -/
#guard makeProfileC ap s1 == some (makeProfile ap s1)
#guard setGapPenaltiesC (makeProfile ap s1) 3 == some (setGapPenalties (makeProfile ap s1) 3)
#guard (updateNC ap p1 p2 [0, 33, 0, 0, 2, 0] 1 1).run == some (updateN ap p1 p2 [0, 33, 0, 0, 2, 0] 1 1)
#guard (updateN ap p1 p2 [0, 1, 0, 0, 0] 1 1).isSome
#guard ((updateNC ap p1 p2 [0, 1, 0, 0, 0] 1 1).run.map (·.isSome)) == some true
#guard (makeProfileC ap #[0, 64]).isNone
example : (gapColC ap #[some 0, some 1] 1 1).isNone = true := by decide +kernel

/-! ## 4. `do_align` -/
def stI : AlnState ExactScore := AlnState.init #[s1, s2, #[1, 2, 3]]
example : stI.wf := init_wf _
#guard (doAlignC .parallel ap stI 0 1 3 false).run.map (·.map (·.2.codes)) ==
    some ((doAlign .parallel ap stI 0 1 3 false).map (·.2.codes))
#guard ((doAlign .parallel ap stI 0 1 3 false).map (·.2.codes)).isSome
#guard (alignTasksC .parallel ap [(0, 1, 3), (3, 2, 4)] stI).run.map (·.map (·.nsip)) == some (some #[1, 1, 1, 2, 3])
#guard (alignTasks .parallel ap [(0, 1, 3), (3, 2, 4)] stI).map (·.nsip) == some #[1, 1, 1, 2, 3]
-- a state whose `plen` vector is too short: the write `plen[c]` would be dropped
#guard (doAlignC .parallel ap { stI with plen := #[0, 0, 0] } 0 1 3 false).run.isNone

/-! ## 5. `upgma`, `distMatrix`, `smallTree`, `anchorMatrix` (`Float32`: compiled evaluation) -/
def dm3 : List (List Float32) := [[0, 1, 4], [1, 0, 2], [4, 2, 0]]
example : dm3.length = [5, 7, 9].length ∧ ∀ row ∈ dm3, row.length = [5, 7, 9].length := by
  refine ⟨rfl, ?_⟩
  intro row h
  simp only [dm3, List.mem_cons, List.not_mem_nil, or_false] at h
  rcases h with h | h | h <;> subst h <;> rfl
#guard (upgmaC dm3 [5, 7, 9]).run == some (upgma dm3 [5, 7, 9])
#guard (upgma dm3 [5, 7, 9]).isSome
-- a 2 × 2 matrix for three samples: `dm[0][2]` does not exist
#guard (upgmaC [[0, 1], [1, 0]] [5, 7, 9]).run.isNone
def codes3 : Array (List Nat) := #[[0, 1, 2, 3, 0, 1], [0, 2, 3, 0, 1], [3, 3, 2, 1, 0, 0, 1]]
def bits2 (x : Option (List (List Float32))) := x.map (·.map (·.map Float32.toBits))
#guard (distMatrixC codes3.toList).run.map bits2 == some (bits2 (distMatrix codes3.toList))
#guard (distMatrix codes3.toList).isSome
def reprT (x : Option Tree) : Option String := x.map fun t => toString (repr t)
#guard (smallTreeC codes3 [2, 0, 1]).run.map reprT == some (reprT (smallTree codes3 [2, 0, 1]))
#guard (smallTree codes3 [2, 0, 1]).isSome
-- a sample that is not a sequence index
#guard (smallTreeC codes3 [2, 0, 3]).run.isNone
def bitsA (x : Option (Array (Array Float32))) := x.map (·.map (·.map Float32.toBits))
#guard (anchorMatrixC codes3 [1, 2]).run.map bitsA == some (bitsA (anchorMatrix codes3 [1, 2]))
#guard (anchorMatrixC codes3 [1, 5]).run.isNone

/-! ## 6. k-means lanes, `bpm_block` -/
def dmK : Array (Array Float32) :=
  #[#[0, 3, 0, 0, 0, 0, 0, 0], #[3, 0, 0, 0, 0, 0, 0, 0], #[1, 2, 0, 0, 0, 0, 0, 0], #[5, 7, 0, 0, 0, 0, 0, 0]]
def splitBits (x : Option Kmeans.Split) := x.map fun s => (s.sl, s.sr, s.score.toBits)
#guard (Kmeans.split2WithC 500 true dmK [0, 1, 2, 3] 2 1).run.map splitBits ==
    some (splitBits (Kmeans.split2With 500 true dmK [0, 1, 2, 3] 2 1))
#guard (Kmeans.split2WithC 500 false dmK [3, 1, 2] 2 0).run.map splitBits ==
    some (splitBits (Kmeans.split2With 500 false dmK [3, 1, 2] 2 0))
#guard (Kmeans.split2With 500 true dmK [0, 1, 2, 3] 2 1).isSome
-- the AVX lanes read 8 floats per block: a 2-float vector is too short for them, not for the serial loop
#guard (Kmeans.edistC true #[1, 2] #[3, 4] 2).isNone
#guard (Kmeans.edistC false #[1, 2] #[3, 4] 2).map Float32.toBits == some (Kmeans.edist false #[1, 2] #[3, 4] 2).toBits
#guard (bpmBlockC [0, 1, 2, 3, 1, 0, 2] [1, 2, 3, 3]).run == some (bpmBlock [0, 1, 2, 3, 1, 0, 2] [1, 2, 3, 3])
#guard (bpmBlockC (List.replicate 200 1) (List.replicate 130 2)).run == some (bpmBlock (List.replicate 200 1) (List.replicate 130 2))
#guard (bpmBlock [0, 1, 2, 3, 1, 0, 2] [1, 2, 3, 3]) == some 1
example : blkScoreC [⟨0, 0, 5⟩] 1 = none := by decide
example : lsetC [1, 2] 2 7 = none := by decide
-- the monitor hypothesis of `C05_mirrorPath_indices_in_range_partial` on a concrete run, and the twin evaluated on its path
#guard (alnRun .serial ap (.seqseq s1 s2) 4 5 (initMem 4 5)).mon
#guard Pipeline.mirrorPathC 5 ((alnRun .parallel ap (.seqseq s1 s2) 4 5 (initMem 4 5)).pathEntries 4) ==
    some (mirrorPath 5 ((alnRun .parallel ap (.seqseq s1 s2) 4 5 (initMem 4 5)).pathEntries 4))
example : Pipeline.mirrorPathC 2 [1, 3] = none := by decide
example : Pipeline.mirrorPathC 3 [1, 3] = some (mirrorPath 3 [1, 3]) := by decide

/-! ## everything composed -/
def showCore (x : Except PipeErr (List (List Nat))) : String :=
  match x with
  | .ok g => toString g
  | .error e => toString (repr e)
def coreIn : List (List Nat) := [[0, 1, 2, 3, 0, 1], [0, 2, 3, 0, 1], [3, 3, 2, 1, 0, 0, 1], [0, 1, 2, 3]]
#guard (coreC true .dna coreIn coreIn Gen.typeWhenAbsent (-1) (-1) (-1)).map showCore ==
    some (showCore (core true .dna coreIn coreIn Gen.typeWhenAbsent (-1) (-1) (-1)))
#guard (match core true .dna coreIn coreIn Gen.typeWhenAbsent (-1) (-1) (-1) with | .ok _ => true | .error _ => false)

end Kalign.IdxEx
