import KalignModel.Lemmas.Dist
import KalignModel.Lemmas.Bpm256Lanes
import KalignModel.Lemmas.BpmWord
/-!
# C11 — the bit-parallel edit distance routines compute the minimum over substrings of the Levenshtein distance

"For every text and every pattern not longer than the text over the 13-symbol alphabet, the blocked bit-parallel
routine returns the minimum, over all substrings of the text, of the edit distance to the pattern (its first 1024
symbols), and the 64-bit and 256-bit single-word variants return the same value wherever they apply (patterns up to
63 / 255 symbols)."

Models (Model/Bpm.lean): `bpmBlock` = `bpm_block`, `bpm64` = `bpm`, `bpm256` = `bpm_256` (AVX2 lanes, `add256`,
`bitShiftLeft256ymm`), tied to the C code by the correspondence ops `bpm_block`, `bpm`, `bpm_256`, `sellers`, ….
Specification: `lev` (Levenshtein distance), `levSub p t` = minimum of `lev p s` over the substrings `s` of `t`.

Stages: (i) `C11_sellers_spec`; (ii) `cell_rule`, (iii) `block_step` (Lemmas/Myers.lean, width-generic, no
`bv_decide`); (iv) `C11_bpm_block_correct`, `C11_bpm64_correct`, `C11_bpm256_correct`; all together `C11`.
The theorems do not need the hypothesis "pattern not longer than the text".
-/
namespace Kalign

/-- `levSub p t` is attained at a substring of `t` and is a lower bound of `lev p s` over all substrings `s` -/
theorem C11_levSub_spec (p t : List Nat) :
    (∀ s, s <:+: t → levSub p t ≤ lev p s) ∧ ∃ s, s <:+: t ∧ levSub p t = lev p s :=
  levSub_isMin p t

/-- (i) Sellers' recurrence (free start in the text) computes the minimum over substrings -/
theorem C11_sellers_spec (p t : List Nat) : sellers p t = levSub p t := sellers_spec p t

/-- (ii) the DP recurrence on differences -/
theorem C11_cell_rule (init : Nat → Nat) (eq : Nat → Nat → Bool) (j i : Nat) :
    dV init eq (j + 1) i = cellV (dV init eq j i) (dH init eq j i) (eq i j) ∧
    dH init eq j (i + 1) = cellH (dV init eq j i) (dH init eq j i) (eq i j) :=
  cell_rule init eq j i

/-- (iii) one 64-bit block step of the C formulas: from the delta encoding of a column (which includes
`Pv &&& Mv = 0`) and a carry-in in `{-1,0,1}` to the delta encoding of the next column and the carry-out -/
theorem C11_block_step (Pv Mv Eq : BitVec 64) (hIn : Int) (v : Nat → Int) (e : Nat → Bool)
    (hEnc : Enc Pv Mv v) (hE : ∀ i, i < 64 → Eq.getLsbD i = e i) (hh : hIn = -1 ∨ hIn = 0 ∨ hIn = 1) :
    Enc (advanceBlock Pv Mv Eq hIn).1 (advanceBlock Pv Mv Eq hIn).2.1 (refV v e hIn) ∧
    (advanceBlock Pv Mv Eq hIn).2.2 = refH v e hIn 64 :=
  block_step Pv Mv Eq hIn v e (by omega) hEnc hE hh

/-- the encoding forces disjoint words -/
theorem C11_enc_disjoint {w : Nat} (P M : BitVec w) (v : Nat → Int) (h : Enc P M v) : P &&& M = 0#w := by
  apply BitVec.eq_of_getLsbD_eq
  intro i hi
  obtain ⟨ht, hP, hM⟩ := h i hi
  rw [BitVec.getLsbD_and, hP, hM]
  rcases ht with h | h | h <;> simp [h]

/-- (iv) `bpm_block`: composition over the blocks, wildcard padding of the last block, `W` extra text columns; the
Ukkonen band is inactive (`y` starts at `b_max - 1`, cannot grow, and is proved never to shrink) -/
theorem C11_bpm_block_correct (t p : List Nat) (ht : ∀ c ∈ t, c < 13) :
    bpmBlock t p = some ((levSub (p.take 1024) t : Nat) : Int) := by
  rw [bpmBlock_eq_sellers t p ht, sellers_spec]

/-- `bpm` (one 64-bit word) for non-empty patterns (it uses the first 63 symbols) -/
theorem C11_bpm64_correct (t p : List Nat) (hp0 : p ≠ []) (ht : ∀ c ∈ t, c < 13) (hp : ∀ c ∈ p, c < 13) :
    bpm64 t p = some (levSub (p.take 63) t) := by
  rw [bpm64_eq_sellers t p hp0 ht hp, sellers_spec]

/-- `bpm_256` (AVX2 lane emulation; it uses the first 255 symbols) -/
theorem C11_bpm256_correct (t p : List Nat) (ht : ∀ c ∈ t, c < 13) (hp : ∀ c ∈ p, c < 13) :
    bpm256 t p = some (levSub (p.take 255) t) := by
  rw [bpm256_eq_word t p ht hp, bpm256W_eq_sellers, sellers_spec]

/-- the 256-bit add-with-carry and shift emulations are the 256-bit operations -/
theorem C11_add256 (A B : V256) : (add256 0 A B).toBV = A.toBV + B.toBV := toBV_add256 A B
theorem C11_shl256 (a : V256) (c : Nat) (hc : c ≤ 64) : (shl256 a c).toBV = a.toBV <<< c := toBV_shl256 a c hc

/-- **C11** -/
theorem C11 (t p : List Nat) (ht : ∀ c ∈ t, c < 13) (hp : ∀ c ∈ p, c < 13) :
    -- the blocked routine returns the minimum over the substrings of the text of the distance to the first 1024 symbols
    (∃ r : Nat, bpmBlock t p = some (r : Int) ∧
      (∀ s, s <:+: t → r ≤ lev (p.take 1024) s) ∧ (∃ s, s <:+: t ∧ r = lev (p.take 1024) s)) ∧
    -- the single-word variants agree with it where they apply
    (1 ≤ p.length → p.length ≤ 63 → (bpm64 t p).map (fun r => (r : Int)) = bpmBlock t p) ∧
    (p.length ≤ 255 → (bpm256 t p).map (fun r => (r : Int)) = bpmBlock t p) := by
  refine ⟨⟨levSub (p.take 1024) t, C11_bpm_block_correct t p ht, (levSub_isMin _ _).1, (levSub_isMin _ _).2⟩, ?_, ?_⟩
  · intro h1 h63
    have hp0 : p ≠ [] := by intro h; rw [h] at h1; simp at h1
    rw [C11_bpm64_correct t p hp0 ht hp, C11_bpm_block_correct t p ht,
      List.take_of_length_le (by omega : p.length ≤ 63), List.take_of_length_le (by omega : p.length ≤ 1024)]
    rfl
  · intro h255
    rw [C11_bpm256_correct t p ht hp, C11_bpm_block_correct t p ht,
      List.take_of_length_le h255, List.take_of_length_le (by omega : p.length ≤ 1024)]
    rfl

/-- non-vacuity: the hypotheses only ask for symbols of the 13-letter alphabet; a concrete instance -/
example : ∃ r : Nat, bpmBlock [0, 1, 2, 3, 1, 2] [1, 2, 0] = some (r : Int) ∧
    (∀ s, s <:+: [0, 1, 2, 3, 1, 2] → r ≤ lev (List.take 1024 [1, 2, 0]) s) :=
  let ⟨r, h1, h2, _⟩ := (C11 [0, 1, 2, 3, 1, 2] [1, 2, 0] (by decide) (by decide)).1
  ⟨r, h1, h2⟩

/-- the specification side is the edit distance one expects: symmetric, `0` exactly on equal strings, at least the
length difference and at most the longer length (so `C11` is not a statement about a degenerate `lev`) -/
theorem C11_lev_sane {α : Type} [DecidableEq α] (a b : List α) :
    lev a b = lev b a ∧ (lev a b = 0 ↔ a = b) ∧
    a.length - b.length ≤ lev a b ∧ b.length - a.length ≤ lev a b ∧ lev a b ≤ max a.length b.length :=
  ⟨lev_symm a b, ⟨lev_eq_zero a b, fun h => h ▸ lev_self a⟩, lev_bounds a b⟩

end Kalign
