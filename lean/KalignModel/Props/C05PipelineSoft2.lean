import KalignModel.Lemmas.TreeSoftPipe
/-!
# C05 (pipeline) for `kalignRunSoft2`: DP scores *and* the `upgma` guide tree on the software binary32 — no hypothesis about values

`kalignRunSoft2` (Model/TreeSoft.lean; tied to the real `kalign()` by the op `kalign_sys_soft2`, its tree stage by `dist_matrix_soft`,
`upgma_soft`, `tree_soft`, `f32_lenterm`) is `kalignRunSoft` with the `< 100` branch of `bisecting_kmeans` (`d_estimation(…,1)` +
`upgma`) computed on `SoftF32`.  `Props/C05Pipeline.lean`'s two hypotheses about binary32 values are both gone:

* `PipelineMonHyp` (meetup monitor): `monHyp_bounded` (Props/C05PipelineSoft.lean) + `guideTreeDistinct`-style structure
  (`buildTasks2_tree`: the leaves of the guide tree are `0 … n-1`, each once).
* `PipelineUpgmaHyp` (active entries of every `upgma` matrix below `FLT_MAX`): **proved** for `upgmaS` — a distance entry is
  `(float)(uint32_t)d + add ≤ 2³² + 1`, a join `(x + y)·0.5F + 0.001F` of entries bounded by `(2²³ + k)·2¹⁰` is bounded by
  `(2²³ + k + 1)·2¹⁰` (`add_absLe`, `mul_half_absLe`), so after `k < 2²³` rounds every entry is finite and far below `FLT_MAX`; the scan
  finds an active pair in every round (`upgmaS_some`, Lemmas/TreeSoftBound.lean).

## theorems (`K` = number of non-empty input sequences, `M` = a bound on their lengths)

* `kalignRunSoft2_never_faults_of_nonempty` — `K ≤ 2¹⁷`, `K · M < 2¹⁹` ⟹ the run ends in none of `.fault`, `.tree`, `.monitor`,
  `.fuel`; every `type`, every penalty triple; **no other hypothesis**.  This includes inputs with 100 sequences and more: the control
  flow of the k-means recursion of the model (`bisectO`, `bestSplit`) does not depend on the `Float32` values it computes
  (`bisectO_spec`, `bestSplit_isSome` need only the row lengths of the anchor matrix), and every part below 100 samples goes through
  `smallTreeS`.  Hence no `_partial` theorem with a k-means hypothesis is needed.
* `kalignRunSoft2_never_faults` — the same with the size hypotheses of `kalignRunSoft_never_fault_monitor` (`numseq ≤ 2¹⁷`,
  `numseq · M < 2¹⁹`).
* `kalignRunSoft2_never_faults_small` — fewer than 100 non-empty sequences, `K · M < 2¹⁹`.
* `kalignRunSoft2_errors` — under the same hypotheses the only errors are the documented rejections `.badByte`, `.tooFew`,
  `.alphabet`, `.param`.
* `buildTasks2_small` — for fewer than 100 sequences the task table is a function of `smallTreeS` alone: no `Float32` value (the anchor
  matrix `d_estimation(…,0)` is computed, as in C, but never read) influences the result.
-/
namespace Kalign.Pipeline
open Kalign Kalign.Kmeans Kalign.SoftF32

/-- number of non-empty input sequences (`msa->numseq` after `kalign_essential_input_check`) -/
def numNonEmpty (inp : List InSeq) : Nat := (inp.filter fun x => x.seq.length ≠ 0).length

theorem numNonEmpty_le (inp : List InSeq) : numNonEmpty inp ≤ inp.length := List.length_filter_le _ _

theorem canon_length_eq (inp : List InSeq) (c : List RSeq) (h : canon inp = some c) : (view c).length = numNonEmpty inp := by
  unfold canon at h
  cases he : essentialInputCheck inp with
  | none => rw [he] at h; cases h
  | some l =>
    rw [he] at h
    simp only [Option.map_some, Option.some.injEq] at h
    subst h
    have hv := essentialInputCheck_view inp l he
    have hperm : (view (sortLenName l)).Perm (view l) := (List.mergeSort_perm l leLenName).map _
    rw [hperm.length_eq, hv]
    unfold keptView numNonEmpty
    rw [List.length_map]

theorem treeCodes_lt13 (bio : Bio) (c : List RSeq) : ∀ s ∈ (treeCodes bio c).toList, ∀ x ∈ s, x < 13 := by
  intro s hs
  simp only [treeCodes, List.map_map, List.mem_map, Function.comp_apply] at hs
  obtain ⟨x, _, rfl⟩ := hs
  intro k hk
  rcases treeAlphabet_cases bio with h | h
  · have := convertN_lt 5 (Or.inl rfl) (bytesOf x.2) k (by rw [← h]; exact hk); omega
  · exact convertN_lt 13 (Or.inr (Or.inl rfl)) (bytesOf x.2) k (by rw [← h]; exact hk)

/-- **for fewer than 100 sequences the task table depends on `smallTreeS` only** (no `Float32` value is read) -/
theorem buildTasks2_small (avx : Bool) (codes : Array (List Nat)) (hn : codes.size ≠ 0) (hs : codes.size < 100)
    (h13 : ∀ s ∈ codes.toList, ∀ c ∈ s, c < 13) :
    buildTasks2 avx codes =
      match smallTreeS codes (List.range codes.size) with
      | some t => .ok (Kmeans.sortTasks (treeTasks t codes.size)).toArray
      | none => .error .tree := by
  unfold buildTasks2
  simp only
  have hlne : codes.toList.map List.length ≠ [] := by
    intro h
    have := congrArg List.length h
    simp only [List.length_map, Array.length_toList, List.length_nil] at this
    exact hn this
  obtain ⟨anchors, ha, _, _⟩ := pickAnchors_spec (codes.toList.map List.length) hlne
  rw [ha]
  simp only
  obtain ⟨dm, hdm, _⟩ := anchorMatrix_some codes anchors h13
  rw [hdm]
  simp only
  unfold bisectO
  have hk : (List.range codes.size).length < kmSmall := by simpa [kmSmall] using hs
  rw [if_pos hk]
  cases smallTreeS codes (List.range codes.size) <;> rfl

/-- **all four fault stages of `kalignRunSoft2`: never reached** — `K ≤ 2¹⁷` non-empty sequences of at most `M` residues,
`K · M < 2¹⁹`; every `type`, every penalty triple; no hypothesis about values, none about the guide tree -/
theorem kalignRunSoft2_never_faults_of_nonempty (inp : List InSeq) (type : Int) (gpo gpe tgpe : SoftF32) (M : Nat)
    (hK : numNonEmpty inp ≤ 131072) (hlen : ∀ x ∈ inp, x.seq.length ≤ M) (hprod : numNonEmpty inp * M < 524288) :
    kalignRunSoft2 inp type gpo gpe tgpe ≠ .error .fault ∧ kalignRunSoft2 inp type gpo gpe tgpe ≠ .error .tree ∧
    kalignRunSoft2 inp type gpo gpe tgpe ≠ .error .monitor ∧ kalignRunSoft2 inp type gpo gpe tgpe ≠ .error .fuel := by
  have hszT : ∀ c, canon inp = some c → (treeCodes (bioOf detectF inp) c).size = numNonEmpty inp := by
    intro c hc
    rw [← canon_length_eq inp c hc]; simp [treeCodes]
  have h := kalignRunWithCB_cases (buildTasks2 true) (fun bio => paramOfTableS bio.code type gpo gpe tgpe) inp
    (by
      intro c hc h2
      exact buildTasks2_tree true _ (by rw [hszT c hc, ← canon_length_eq inp c hc]; omega) (by rw [hszT c hc]; omega)
        (treeCodes_lt13 _ c))
    (by
      intro c ap T hc hp _ hperm
      have hsz := hszT c hc
      have hsz2 : (alnCodes (bioOf detectF inp) c).size = numNonEmpty inp := by
        rw [← canon_length_eq inp c hc]; simp [alnCodes]
      have hTl : T.leaves.length = numNonEmpty inp := by rw [hperm.length_eq, List.length_range, hsz]
      refine monHypL_of_bounds hp _ T.leaves M (by omega) ?_ (by rw [hTl]; exact hprod)
      intro i hi
      have hi' : i < (alnCodes (bioOf detectF inp) c).size := by
        rw [hsz2, ← hsz]; exact List.mem_range.1 (hperm.mem_iff.1 hi)
      obtain ⟨x, hx, ex⟩ := alnCodes_length _ c i hi'
      obtain ⟨x', hx', ex'⟩ := canon_mem inp c hc x hx
      rw [ex, ← ex']
      exact hlen x' hx')
  unfold kalignRunSoft2
  cases hr : kalignRunWithCB detectF (buildTasks2 true) (fun bio => paramOfTableS bio.code type gpo gpe tgpe) inp with
  | ok v => simp [Except.map]
  | error e =>
    rw [hr] at h
    simp only [Except.map, ne_eq, Except.error.injEq] at h ⊢
    exact ⟨h.2.2.1, h.2.1, h.2.2.2, h.1⟩

/-- the same with the size hypotheses of `kalignRunSoft_never_fault_monitor`: at most 2¹⁷ sequences of at most `M` residues,
`numseq · M < 2¹⁹` -/
theorem kalignRunSoft2_never_faults (inp : List InSeq) (type : Int) (gpo gpe tgpe : SoftF32) (M : Nat)
    (hn : inp.length ≤ 131072) (hlen : ∀ x ∈ inp, x.seq.length ≤ M) (hprod : inp.length * M < 524288) :
    kalignRunSoft2 inp type gpo gpe tgpe ≠ .error .fault ∧ kalignRunSoft2 inp type gpo gpe tgpe ≠ .error .tree ∧
    kalignRunSoft2 inp type gpo gpe tgpe ≠ .error .monitor ∧ kalignRunSoft2 inp type gpo gpe tgpe ≠ .error .fuel := by
  have hle := numNonEmpty_le inp
  have : numNonEmpty inp * M ≤ inp.length * M := Nat.mul_le_mul_right _ hle
  exact kalignRunSoft2_never_faults_of_nonempty inp type gpo gpe tgpe M (by omega) hlen (by omega)

/-- **fewer than 100 non-empty sequences** (the guide tree is then computed by `d_estimation(…,1)` + `upgma`, entirely on `SoftF32`:
`buildTasks2_small`), `numseq · maxlen < 2¹⁹`: `kalignRunSoft2` never returns `.fault`, `.tree`, `.monitor` or `.fuel` -/
theorem kalignRunSoft2_never_faults_small (inp : List InSeq) (type : Int) (gpo gpe tgpe : SoftF32) (M : Nat)
    (hK : numNonEmpty inp < 100) (hlen : ∀ x ∈ inp, x.seq.length ≤ M) (hprod : numNonEmpty inp * M < 524288) :
    kalignRunSoft2 inp type gpo gpe tgpe ≠ .error .fault ∧ kalignRunSoft2 inp type gpo gpe tgpe ≠ .error .tree ∧
    kalignRunSoft2 inp type gpo gpe tgpe ≠ .error .monitor ∧ kalignRunSoft2 inp type gpo gpe tgpe ≠ .error .fuel :=
  kalignRunSoft2_never_faults_of_nonempty inp type gpo gpe tgpe M (by omega) hlen hprod

/-- **the only errors are the documented rejections**: a byte ≥ 128 (undefined behaviour in C, the model refuses), fewer than two
non-empty sequences, an undecided alphabet, `aln_param_init` rejecting `type` / a penalty -/
theorem kalignRunSoft2_errors (inp : List InSeq) (type : Int) (gpo gpe tgpe : SoftF32) (M : Nat)
    (hK : numNonEmpty inp ≤ 131072) (hlen : ∀ x ∈ inp, x.seq.length ≤ M) (hprod : numNonEmpty inp * M < 524288)
    (e : PipeErr) (he : kalignRunSoft2 inp type gpo gpe tgpe = .error e) :
    e = .badByte ∨ e = .tooFew ∨ e = .alphabet ∨ e = .param := by
  obtain ⟨h1, h2, h3, h4⟩ := kalignRunSoft2_never_faults_of_nonempty inp type gpo gpe tgpe M hK hlen hprod
  rw [he] at h1 h2 h3 h4
  cases e <;> simp at h1 h2 h3 h4 ⊢

/-! ## non-vacuity (a kernel-evaluated run: Props/C05PipelineSoft2Ex.lean) -/

/-- three DNA sequences of at most 8 residues: the hypotheses hold (`3 < 100`, `3 · 8 < 2¹⁹`) -/
def exInp2 : List InSeq :=
  [{ name := [65], seq := "ACGTACGT".toList }, { name := [66], seq := "ACGTCGT".toList }, { name := [67], seq := "AGTACG".toList }]

example : kalignRunSoft2 exInp2 (-1) (ofRaw 0xbf800000) (ofRaw 0xbf800000) (ofRaw 0xbf800000) ≠ .error .fault ∧
    kalignRunSoft2 exInp2 (-1) (ofRaw 0xbf800000) (ofRaw 0xbf800000) (ofRaw 0xbf800000) ≠ .error .tree ∧
    kalignRunSoft2 exInp2 (-1) (ofRaw 0xbf800000) (ofRaw 0xbf800000) (ofRaw 0xbf800000) ≠ .error .monitor ∧
    kalignRunSoft2 exInp2 (-1) (ofRaw 0xbf800000) (ofRaw 0xbf800000) (ofRaw 0xbf800000) ≠ .error .fuel :=
  kalignRunSoft2_never_faults_small exInp2 (-1) _ _ _ 8 (by decide) (by decide) (by decide)

end Kalign.Pipeline
