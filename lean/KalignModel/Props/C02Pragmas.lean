import KalignModel.Gen.Omp
/-!
Hand-kept pin of every `#pragma omp` line of the kalign sources (all files, all clauses), as they are in the tree the
theorems of Props/C02.lean were proved for.  `Gen.ompPragmaLines` is regenerated from the C text on every run: an added,
removed or altered directive or clause anywhere (also in files or clause kinds the structured skeleton does not model)
makes `pragma_lines_match` fail to check.
-/
namespace Kalign.C02

def expectedPragmaLines : List String := [
  "aln_controller.c:aln_runner: parallel",
  "aln_controller.c:aln_runner: single nowait",
  "aln_controller.c:aln_runner: task shared(m) if(m->run_parallel)",
  "aln_controller.c:aln_runner: task shared(m) if(m->run_parallel)",
  "aln_controller.c:aln_runner: taskwait",
  "aln_controller.c:aln_runner: task shared(m) if(m->run_parallel)",
  "aln_controller.c:aln_runner: task shared(m) if(m->run_parallel)",
  "aln_controller.c:aln_runner: taskwait",
  "aln_controller.c:aln_runner: task shared(m) if(m->run_parallel)",
  "aln_controller.c:aln_runner: task shared(m) if(m->run_parallel)",
  "aln_controller.c:aln_runner: taskwait",
  "aln_run.c:create_msa_tree: parallel",
  "aln_run.c:create_msa_tree: single nowait",
  "aln_run.c:recursive_aln: task shared(msa,t,ap,active) firstprivate(a)",
  "aln_run.c:recursive_aln: task shared(msa,t,ap,active) firstprivate(b)",
  "aln_run.c:recursive_aln: taskwait",
  "bisectingKmeans.c:build_tree_kmeans: parallel",
  "bisectingKmeans.c:build_tree_kmeans: single nowait",
  "bisectingKmeans.c:bisecting_kmeans: task shared(dm,samples,num_anchors, num_samples,i,step,res)",
  "bisectingKmeans.c:bisecting_kmeans: task shared(dm,samples,num_anchors, num_samples,i,step,res)",
  "bisectingKmeans.c:bisecting_kmeans: task shared(dm,samples,num_anchors, num_samples,i,step,res)",
  "bisectingKmeans.c:bisecting_kmeans: task shared(dm,samples,num_anchors, num_samples,i,step,res)",
  "bisectingKmeans.c:bisecting_kmeans: taskwait",
  "bisectingKmeans.c:bisecting_kmeans: task shared(msa,n,dm)",
  "bisectingKmeans.c:bisecting_kmeans: task shared(msa,n,dm,num_anchors)",
  "bisectingKmeans.c:bisecting_kmeans: taskwait",
  "sequence_distance.c:d_estimation: parallel for shared(dm, s) private(i, j) collapse(2) schedule(static)"]

theorem pragma_lines_match : Gen.ompPragmaLines = expectedPragmaLines := by decide

/-- no scalar declared outside an `omp parallel for` body is assigned inside it without being private: every iteration of the
distance-matrix loop writes only its own cell `dm[i][j]` (the footprint assumed by `dist_prog_safe`) -/
theorem no_shared_writes_in_parallel_for : Gen.sharedWritesInParallelFor = [] := by decide

end Kalign.C02
