import KalignModel.Model.IO.Read
import KalignModel.Model.IO.Write
import KalignModel.Props.C01
import KalignModel.Props.C07
import KalignModel.Props.C09
import KalignModel.Props.C14
import KalignModel.Props.C15
/-!
# C05 — no memory error, crash or hang on any input; failures are reported as failures

Lean does not prove memory safety of the C text.  What is proved here is about the *fault-aware* models: they return an
explicit fault value where the C code would read or write outside an object, and the theorems say that value is never
produced on the quantified inputs.  The correspondence (model verdict = sanitizer verdict on the same bytes) and the
sanitizer-instrumented search carry this to the code (tools/props/c05.py).
-/
namespace Kalign
open Kalign.IO

/-- every byte string: reading one input never takes a path on which the C reader has undefined behaviour
(NULL dereference before the first header, negative histogram index, over-read of an MSF header line,
`sip[-2]` on an input without sequences — all repaired in /repo; the model has no fault path left) -/
theorem C05_read_never_faults (prev : Option Msa) (file : Bytes) : readInput1 prev file ≠ .fault := by
  intro h
  unfold readInput1 at h
  simp only [] at h
  repeat' split at h
  all_goals first | exact ReadResult.noConfusion h | simp at h

/-- any list of input files -/
theorem C05_read_many_never_faults : ∀ (files : List Bytes) (prev : Option Msa), readInputs prev files ≠ .fault
  | [], none => by simp [readInputs]
  | [], some _ => by simp [readInputs]
  | f :: fs, prev => by
    have h1 := C05_read_never_faults prev f
    have r0 := C05_read_many_never_faults fs prev
    have r1 := fun m => C05_read_many_never_faults fs (some m)
    cases prev with
    | none =>
      simp only [readInputs]
      cases hr : readInput1 none f with
      | fault => exact absurd hr h1
      | fail => simp
      | null => simpa using r0
      | ok m => simpa using r1 m
    | some d =>
      simp only [readInputs]
      cases hr : readInput1 (some d) f with
      | fault => exact absurd hr h1
      | fail => simp
      | null => simpa using r0
      | ok m => simpa using r1 m

/-- every residue letter that is accepted is mapped to a defined residue class, inside the tables that are indexed with it:
codes of the guide-tree alphabets (nucleotide 5, reduced protein 13) index `Peq[13]` of the distance kernel, codes of the
alignment alphabets (5, 23) index the 23x23 substitution matrix -/
theorem C05_codes_in_range : ∀ c ∈ List.range 128, isAsciiLetter c = true →
    (0 ≤ codeOf 5 c ∧ codeOf 5 c < 5) ∧ (0 ≤ codeOf 13 c ∧ codeOf 13 c < 13) ∧ (0 ≤ codeOf 23 c ∧ codeOf 23 c < 23) := by
  decide +kernel

/-- the expansion of a well-shaped Hirschberg path stays inside the path buffer (no terminator overrun) -/
theorem C05_expandPath_no_fault (lenB : Nat) (path : List Int) (hb : 1 ≤ lenB) (hne : path ≠ [])
    (h : pathOK lenB path = true) : expandPath lenB path ≠ none := by
  obtain ⟨codes, hc, _⟩ := C01_expandPath_valid lenB path hb hne h
  simp [hc]

/-- penalties that would overflow the DP's `-FLT_MAX` sentinel are rejected before any alignment work -/
theorem C05_huge_penalties_rejected (bt : Nat) (t : Int) (g e x : Int) (h : capK < g ∨ capK < e ∨ capK < x) :
    alnParamInit bt t g e x = none := C09_over_cap_rejected bt t g e x h

/-- the writers index rows only below `alnlen`: for a finished alignment this is inside every row -/
theorem C05_write_in_bounds (S : List SeqRec) (wf : AlnWF S) (bio L : Nat) (base : Bytes) :
    (finalise S bio L base).InBounds := finalise_inBounds S wf bio L base

end Kalign
