import KalignModel.Lemmas.Cli
import KalignModel.Model.Kernel
import KalignModel.Props.C09
/-!
# The command-line front end (slice T): from `argv` to the parameters of the dynamic programme

Statements about `cliParseB` (Model/Cli.lean), the model of `main` in src/run_kalign.c that is tied to the real code by the
`cli` op.  A *well-formed command line* is a list of `Item`s (Lemmas/Cli.lean): options of the generated table in any of their
spellings — `--name v`, `-name v`, `--name=v`, `-name=v`, unambiguous abbreviations, `-c v`, flags — and file names (empty,
`-`, or not starting with `-`); `tokensOf` is its `argv`.
-/
set_option linter.unusedSimpArgs false
namespace Kalign.Cli
open Kalign

/-! ## the option table -/

/-- the field of the parameter block an option name / letter assigns, and whether it takes an argument -/
def optField (name : Arg) : Option (Nat × Nat) :=
  match longLookup name with
  | .found ha v => some (fieldOf v, ha)
  | _ => none

def shortField (c : Nat) : Option (Nat × Bool) := (shortKind c).map fun b => (fieldOf c, b)

/-- **the documented options and what they set** (field tags: 0 gpo, 1 gpe, 2 tgpe, 3 type word, 4 nthreads, 5 format,
6 output file, 7 `-i` input file, 8 quiet, 9 help, 10 version, 11 showw, 12 set); checked against the `long_options[]`
table, the option string and the `switch` of the current source -/
theorem cli_option_fields :
    optField b!"gpo" = some (0, 1) ∧ optField b!"gpe" = some (1, 1) ∧ optField b!"tgpe" = some (2, 1) ∧
    optField b!"type" = some (3, 1) ∧ optField b!"nthreads" = some (4, 1) ∧ optField b!"format" = some (5, 1) ∧
    optField b!"output" = some (6, 1) ∧ optField b!"outfile" = some (6, 1) ∧ optField b!"out" = some (6, 1) ∧
    optField b!"input" = some (7, 1) ∧ optField b!"infile" = some (7, 1) ∧ optField b!"in" = some (7, 1) ∧
    optField b!"quiet" = some (8, 0) ∧ optField b!"help" = some (9, 0) ∧ optField b!"version" = some (10, 0) ∧
    optField b!"showw" = some (11, 0) ∧ optField b!"set" = some (12, 1) ∧
    shortField 110 = some (4, true) ∧ shortField 102 = some (5, true) ∧ shortField 111 = some (6, true) ∧   -- n f o
    shortField 105 = some (7, true) ∧ shortField 113 = some (8, false) ∧ shortField 104 = some (9, false) ∧  -- i q h
    shortField 118 = some (10, false) ∧ shortField 86 = some (10, false) := by                               -- v V
  refine ⟨?_, ?_, ?_, ?_, ?_, ?_, ?_, ?_, ?_, ?_, ?_, ?_, ?_, ?_, ?_, ?_, ?_, ?_, ?_, ?_, ?_, ?_, ?_, ?_, ?_⟩ <;> decide

/-! ## what a run passes on -/

/-- the early returns of the generated chain, spelled out -/
theorem afterLoop_eq (p : Params) (pos : List Arg) (tty : Bool) :
    afterLoop p pos tty =
      if p.fault then .fault
      else if p.version ≠ 0 then .version
      else if p.showw ≠ 0 then .showw
      else if p.help ≠ 0 then .help
      else if p.nthreads < 1 then .badThreads
      else if inputList tty p pos = [] then .noInput
      else if formatOK p.format = false then .badFormat
      else match setAlnType p.inType with
        | none => .badType
        | some t =>
          match p.gpo, p.gpe, p.tgpe with
          | some g, some e, some x =>
            .run { inputs := inputList tty p pos, quiet := p.quiet, nthreads := p.nthreads, type := t, gpo := g, gpe := e,
                   tgpe := x, outfile := p.outfile, format := p.format }
          | _, _, _ => .unmodelled := by
  unfold afterLoop
  by_cases hf : p.fault = true
  · simp [hf]
  simp only [hf, Bool.false_eq_true, if_false]
  simp only [Gen.cliExitChain, List.find?, exitCond]
  by_cases hv : p.version = 0
  case neg =>
    have : (p.version != 0) = true := by simp [hv]
    simp [hv, this, exitOutcome]
  have hv' : (p.version != 0) = false := by simp [hv]
  by_cases hs : p.showw = 0
  case neg =>
    have : (p.showw != 0) = true := by simp [hs]
    simp [hv, hv', hs, this, exitOutcome]
  have hs' : (p.showw != 0) = false := by simp [hs]
  by_cases hh : p.help = 0
  case neg =>
    have : (p.help != 0) = true := by simp [hh]
    simp [hv, hv', hs, hs', hh, this, exitOutcome]
  have hh' : (p.help != 0) = false := by simp [hh]
  by_cases hn : p.nthreads < 1
  case pos =>
    have : decide (p.nthreads < 1) = true := by simp [hn]
    simp [hv, hv', hs, hs', hh, hh', hn, this, exitOutcome]
  have hn' : decide (p.nthreads < 1) = false := by simp [hn]
  by_cases hi : inputList tty p pos = []
  case pos =>
    simp [hv, hv', hs, hs', hh, hh', hn, hn', hi, exitOutcome]
  have hi' : ((inputList tty p pos).length == 0) = false := by simpa using hi
  simp only [hv, hv', hs, hs', hh, hh', hn, hn', hi, hi', ne_eq, not_true_eq_false, if_false,
    Gen.cliChecks, runChecks]
  by_cases hfo : formatOK p.format = true
  case neg => simp [hfo]
  simp only [hfo, if_true, Bool.true_eq_false, if_false]
  cases ht : setAlnType p.inType with
  | none => rfl
  | some t =>
    simp only [mkConfig, Gen.cliRunArgs, Gen.cliWriteArgs, Gen.cliReadQuiet, intField, fltField, strField]
    cases hg : p.gpo <;> cases he : p.gpe <;> cases hx : p.tgpe <;> simp


/-- when `main` reaches `run_kalign`, and with what -/
theorem afterLoop_run {p : Params} {pos : List Arg} {tty : Bool} {cfg : CliConfig} (h : afterLoop p pos tty = .run cfg) :
    p.fault = false ∧ p.version = 0 ∧ p.showw = 0 ∧ p.help = 0 ∧ 1 ≤ p.nthreads ∧ inputList tty p pos ≠ [] ∧
    formatOK p.format = true ∧ setAlnType p.inType = some cfg.type ∧
    p.gpo = some cfg.gpo ∧ p.gpe = some cfg.gpe ∧ p.tgpe = some cfg.tgpe ∧
    cfg.inputs = inputList tty p pos ∧ cfg.quiet = p.quiet ∧ cfg.nthreads = p.nthreads ∧
    cfg.outfile = p.outfile ∧ cfg.format = p.format := by
  rw [afterLoop_eq] at h
  split at h; · cases h
  rename_i hf
  split at h; · cases h
  rename_i hv
  split at h; · cases h
  rename_i hs
  split at h; · cases h
  rename_i hh
  split at h; · cases h
  rename_i hn
  split at h; · cases h
  rename_i hi
  split at h; · cases h
  rename_i hfo
  split at h; · cases h
  rename_i t ht
  split at h
  · rename_i g e x hg he hx
    simp only [CliOutcome.run.injEq] at h
    subst h
    refine ⟨by simpa using hf, by simpa using hv, by simpa using hs, by simpa using hh, by omega, hi, by simpa using hfo,
      ht, hg, he, hx, rfl, rfl, rfl, rfl, rfl⟩
  · cases h

/-- the outcome of a well-formed command line: the options act in order on the initial block, the file names are
collected in order -/
theorem cliParse_items (xs : List Item) (tty : Bool) (hw : allWf xs = true) :
    cliParseB (tokensOf xs) tty = afterLoop (blockOf xs) (filesOf xs) tty := by
  rw [cliParseB, scanArgs_items xs hw]
  rfl

/-! ## (a) overrides: the last occurrence of each option wins, wherever the options and the files stand -/

/-- **(a), order independence.**  Two well-formed command lines with the same file names in the same order and, for every
field of the parameter block, the same sequence of options assigning it (so: any permutation of the option/value pairs
that keeps the relative order of the occurrences of one option, interleaved in any way with the file names in their
order) have the same outcome — same early exit, or the same calls with the same arguments. -/
theorem cli_override_exact (xs ys : List Item) (tty : Bool) (hx : allWf xs = true) (hy : allWf ys = true)
    (hfiles : filesOf xs = filesOf ys)
    (hopts : ∀ g ∈ List.range 13, asgsTo g (asgsOf xs) = asgsTo g (asgsOf ys)) :
    cliParseB (tokensOf xs) tty = cliParseB (tokensOf ys) tty := by
  rw [cliParse_items xs tty hx, cliParse_items ys tty hy, hfiles]
  have : blockOf xs = blockOf ys :=
    foldl_act_congr _ _ _ (asgsOf_ok xs hx) (asgsOf_ok ys hy) hopts
  rw [this]

/-- **(a), exact values, and (b), the input list.**  When a well-formed command line reaches the library, every
argument of `kalign_run` / `kalign_write_msa` is the value of the LAST option that sets it (converted by `atof` + narrowing
to `float`, `atoi`, or passed as is) and the initial value of `init_param` when no such option is given; the files read
are stdin (when it is not a terminal), then the last `-i` file, then the file names in command-line order. -/
theorem cli_run_config (xs : List Item) (tty : Bool) (cfg : CliConfig) (hw : allWf xs = true)
    (h : cliParseB (tokensOf xs) tty = .run cfg) :
    (match lastArg 0 xs with | some v => atofBits v | none => some 3212836864) = some cfg.gpo ∧
    (match lastArg 1 xs with | some v => atofBits v | none => some 3212836864) = some cfg.gpe ∧
    (match lastArg 2 xs with | some v => atofBits v | none => some 3212836864) = some cfg.tgpe ∧
    cfg.nthreads = (match lastArg 4 xs with | some v => atoi v | none => 4) ∧
    setAlnType (lastArg 3 xs) = some cfg.type ∧
    cfg.format = lastArg 5 xs ∧
    cfg.outfile = lastArg 6 xs ∧
    cfg.quiet = (if (lastArg 8 xs).isSome then 1 else 0) ∧
    cfg.inputs = (if tty then [] else [none]) ++ (lastArg 7 xs).toList.map some ++ (filesOf xs).map some := by
  rw [cliParse_items xs tty hw] at h
  obtain ⟨-, -, -, -, -, -, -, ht, hg, he, hx, hin, hq, hn, ho, hfm⟩ := afterLoop_run h
  obtain ⟨-, hb⟩ := blockOf_get xs hw
  have arg : ∀ g, convOfField g ≠ 3 → ∀ o, lastOpt g xs = some o → ∃ v, o = some v :=
    fun g hg o ho => Option.isSome_iff_exists.1 (lastOpt_isSome_arg xs hw g hg o ho)
  have b0 := hb 0 (by decide); have b1 := hb 1 (by decide); have b2 := hb 2 (by decide); have b3 := hb 3 (by decide)
  have b4 := hb 4 (by decide); have b5 := hb 5 (by decide); have b6 := hb 6 (by decide); have b7 := hb 7 (by decide)
  have b8 := hb 8 (by decide)
  simp only [Params.get] at b0 b1 b2 b3 b4 b5 b6 b7 b8
  refine ⟨?_, ?_, ?_, ?_, ?_, ?_, ?_, ?_, ?_⟩
  · rw [← hg]; unfold lastArg
    cases hl : lastOpt 0 xs with
    | none => simp only [hl] at b0; simpa [Params.init, initBits, Gen.cliInitBits] using b0.symm
    | some o =>
      obtain ⟨v, rfl⟩ := arg 0 (by decide) o hl
      simp only [hl, fvOfField, convOfField, convert, Val.fv, FV.flt.injEq] at b0
      simp [b0]
  · rw [← he]; unfold lastArg
    cases hl : lastOpt 1 xs with
    | none => simp only [hl] at b1; simpa [Params.init, initBits, Gen.cliInitBits] using b1.symm
    | some o =>
      obtain ⟨v, rfl⟩ := arg 1 (by decide) o hl
      simp only [hl, fvOfField, convOfField, convert, Val.fv, FV.flt.injEq] at b1
      simp [b1]
  · rw [← hx]; unfold lastArg
    cases hl : lastOpt 2 xs with
    | none => simp only [hl] at b2; simpa [Params.init, initBits, Gen.cliInitBits] using b2.symm
    | some o =>
      obtain ⟨v, rfl⟩ := arg 2 (by decide) o hl
      simp only [hl, fvOfField, convOfField, convert, Val.fv, FV.flt.injEq] at b2
      simp [b2]
  · rw [hn]; unfold lastArg
    cases hl : lastOpt 4 xs with
    | none => simp only [hl] at b4; simpa [Params.init, initInt, Gen.cliInitInt] using b4
    | some o =>
      obtain ⟨v, rfl⟩ := arg 4 (by decide) o hl
      simp only [hl, fvOfField, convOfField, convert, Val.fv, FV.int.injEq] at b4
      simp [b4]
  · rw [← ht]; unfold lastArg
    cases hl : lastOpt 3 xs with
    | none => simp only [hl] at b3; simp [Params.init] at b3; simp [b3]
    | some o =>
      obtain ⟨v, rfl⟩ := arg 3 (by decide) o hl
      simp only [hl, fvOfField, convOfField, convert, Val.fv, FV.str.injEq] at b3
      simp [b3]
  · rw [hfm]; unfold lastArg
    cases hl : lastOpt 5 xs with
    | none => simp only [hl] at b5; simp [Params.init] at b5; simp [b5]
    | some o =>
      obtain ⟨v, rfl⟩ := arg 5 (by decide) o hl
      simp only [hl, fvOfField, convOfField, convert, Val.fv, FV.str.injEq] at b5
      simp [b5]
  · rw [ho]; unfold lastArg
    cases hl : lastOpt 6 xs with
    | none => simp only [hl] at b6; simp [Params.init] at b6; simp [b6]
    | some o =>
      obtain ⟨v, rfl⟩ := arg 6 (by decide) o hl
      simp only [hl, fvOfField, convOfField, convert, Val.fv, FV.str.injEq] at b6
      simp [b6]
  · rw [hq]; unfold lastArg
    cases hl : lastOpt 8 xs with
    | none => simp only [hl] at b8; simpa [Params.init, initInt, Gen.cliInitInt] using b8
    | some o =>
      simp only [hl, fvOfField, convOfField, convert, Val.fv, FV.int.injEq] at b8
      simp [b8]
  · rw [hin]; unfold lastArg
    cases hl : lastOpt 7 xs with
    | none =>
      simp only [hl] at b7; simp [Params.init] at b7
      cases tty <;> simp [inputList, Gen.cliInputOrder, b7]
    | some o =>
      obtain ⟨v, rfl⟩ := arg 7 (by decide) o hl
      simp only [hl, fvOfField, convOfField, convert, Val.fv, FV.str.injEq] at b7
      cases tty <;> simp [inputList, Gen.cliInputOrder, b7]


/-! ## (b) the input list -/

/-- **(b)** `param->infile[]` = [stdin unless it is a terminal] ++ [the `-i` file if given] ++ the file names in
command-line order — for every `argv`, in terms of what the option loop collected -/
theorem cli_inputs_order (argv : List Arg) (tty : Bool) (cfg : CliConfig) (h : cliParseB argv tty = .run cfg) :
    cfg.inputs = (if tty then [] else [none]) ++ ((scanArgs argv).p.inFile.toList.map some) ++
      (scanArgs argv).pos.map some := by
  unfold cliParseB finish at h
  have h' : afterLoop (scanArgs argv).p (scanArgs argv).pos tty = .run cfg := by
    cases hm : (scanArgs argv).mode <;> simp [hm] at h <;> exact h
  rw [(afterLoop_run h').2.2.2.2.2.2.2.2.2.2.2.1]
  cases tty <;> cases hi : (scanArgs argv).p.inFile <;> simp [inputList, Gen.cliInputOrder, hi]

/-- **(b)** after `--` everything is a file name: the positional files of `options… files… -- rest…` are the file names
before the `--` followed by `rest`, element by element, whatever `rest` looks like -/
theorem cli_inputs_after_ddash (xs : List Item) (rest : List Arg) (tty : Bool) (hw : allWf xs = true) :
    cliParseB (tokensOf xs ++ b!"--" :: rest) tty = afterLoop (blockOf xs) (filesOf xs ++ rest) tty := by
  rw [cliParseB, scanArgs_items_ddash xs rest hw]
  rfl

/-! ## (c) the `--type` words -/

/-- `init_param()` and the initialisers of the locals of `main`, as generated from the current source -/
theorem init_eq : Params.init =
    { gpo := some 3212836864, gpe := some 3212836864, tgpe := some 3212836864, inType := none, nthreads := 4,
      format := none, outfile := none, inFile := none, quiet := 0, help := 0, version := 0, showw := 0,
      paramSet := -1, fault := false } := by decide

/-- the configuration with every option at its initial value -/
def defaultConfig (inputs : List (Option Arg)) : CliConfig :=
  { inputs := inputs, quiet := 0, nthreads := Gen.cliDefault_nthreads, type := Gen.KALIGN_TYPE_UNDEFINED,
    gpo := 3212836864, gpe := 3212836864, tgpe := 3212836864,      -- 0xbf800000 = -1.0f: "use the default of the type"
    outfile := none, format := none }

theorem blockOf_type (w f : Arg) :
    blockOf [.long true b!"type" false w, .file f] = { Params.init with inType := some w } := rfl

/-- **(c)** `kalign --type w file`, for every word `w`: the word goes through the `strstr` chain of `set_aln_type`
(`setAlnType`, Props/C09); a word the chain accepts selects its constant and everything else stays at its default, any
other word ends the program with the failure status before any library call -/
theorem cli_type_word (w f : Arg) (tty : Bool) (hf : (Item.file f).wf = true) :
    cliParseB [b!"--type", w, f] tty =
      match setAlnType (some w) with
      | some t => .run { defaultConfig ((if tty then [] else [none]) ++ [some f]) with type := t }
      | none => .badType := by
  have hw : allWf [.long true b!"type" false w, .file f] = true := by
    simp only [allWf, List.all_cons, List.all_nil, Bool.and_true, Bool.and_eq_true]
    exact ⟨rfl, hf⟩
  have := cliParse_items [.long true b!"type" false w, .file f] tty hw
  simp only [tokensOf, List.flatMap_cons, List.flatMap_nil, Item.tokens, dashes, if_true, List.append_nil,
    List.cons_append, List.nil_append] at this
  rw [this, blockOf_type, afterLoop_eq]
  cases hs : setAlnType (some w) <;> cases tty <;>
    simp [hs, init_eq, inputList, Gen.cliInputOrder, filesOf, List.filterMap_cons,
      Item.fileName, formatOK, defaultConfig, Gen.cliDefault_nthreads]

/-- **(c)** the five documented words select the constant of their name; a word outside the chain is rejected: exit
status 1 and no call -/
theorem cli_type_words (f : Arg) (tty : Bool) (hf : (Item.file f).wf = true) :
    let ins := (if tty then [] else [none]) ++ [some f]
    cliParseB [b!"--type", b!"dna", f] tty = .run { defaultConfig ins with type := Gen.KALIGN_TYPE_DNA } ∧
    cliParseB [b!"--type", b!"rna", f] tty = .run { defaultConfig ins with type := Gen.KALIGN_TYPE_RNA } ∧
    cliParseB [b!"--type", b!"internal", f] tty = .run { defaultConfig ins with type := Gen.KALIGN_TYPE_DNA_INTERNAL } ∧
    cliParseB [b!"--type", b!"protein", f] tty = .run { defaultConfig ins with type := Gen.KALIGN_TYPE_PROTEIN } ∧
    cliParseB [b!"--type", b!"divergent", f] tty = .run { defaultConfig ins with type := Gen.KALIGN_TYPE_PROTEIN_DIVERGENT } ∧
    (∀ w, setAlnType (some w) = none →
      cliParseB [b!"--type", w, f] tty = .badType ∧ CliOutcome.badType.exitStatus = some 1 ∧
      CliOutcome.badType.calls = []) := by
  have hc := C09_type_words
  refine ⟨?_, ?_, ?_, ?_, ?_, ?_⟩
  · rw [cli_type_word _ f tty hf, hc.1]
  · rw [cli_type_word _ f tty hf, hc.2.1]
  · rw [cli_type_word _ f tty hf, hc.2.2.1]
  · rw [cli_type_word _ f tty hf, hc.2.2.2.1]
  · rw [cli_type_word _ f tty hf, hc.2.2.2.2.1]
  · intro w hn
    rw [cli_type_word _ f tty hf, hn]
    exact ⟨rfl, rfl, rfl⟩

/-- **(c)** in any spelling and position: the type that reaches `kalign_run` is what `set_aln_type` makes of the argument of
the last `--type`; when `set_aln_type` rejects that word no library call is made -/
theorem cli_type_last (xs : List Item) (tty : Bool) (hw : allWf xs = true) :
    (∀ cfg, cliParseB (tokensOf xs) tty = .run cfg → setAlnType (lastArg 3 xs) = some cfg.type) ∧
    (setAlnType (lastArg 3 xs) = none → (cliParseB (tokensOf xs) tty).calls = []) := by
  refine ⟨fun cfg h => (cli_run_config xs tty cfg hw h).2.2.2.2.1, fun hn => ?_⟩
  cases ho : cliParseB (tokensOf xs) tty with
  | run cfg =>
    have := (cli_run_config xs tty cfg hw ho).2.2.2.2.1
    rw [hn] at this; cases this
  | _ => rfl

/-! ## (d) defaults -/

/-- **(d)** with no options at all, the configuration is the one of `init_param`: penalties −1 ("take the default of the
type"), type undefined ("decide from the sequences"), four threads (a constant of `init_param`, not a compile-time setting),
no output file (stdout), format `NULL` (`kalign_write_msa` then writes FASTA); the files are read in order, stdin first
when it is not a terminal -/
theorem cli_defaults (fs : List Arg) (tty : Bool) (hf : ∀ f ∈ fs, (Item.file f).wf = true) (hne : tty = false ∨ fs ≠ []) :
    cliParseB fs tty = .run (defaultConfig ((if tty then [] else [none]) ++ fs.map some)) := by
  have hw : allWf (fs.map Item.file) = true := by
    simp only [allWf, List.all_map, List.all_eq_true]
    exact fun f hfm => hf f hfm
  have := cliParse_items (fs.map Item.file) tty hw
  rw [tokensOf_files, filesOf_files] at this
  have hb : blockOf (fs.map Item.file) = Params.init := by rw [blockOf, asgsOf_files]; rfl
  rw [this, hb, afterLoop_eq]
  rw [init_eq]
  have hin : ∀ p : Params, p.inFile = none → inputList tty p fs = (if tty then [] else [none]) ++ fs.map some := by
    intro p hp
    cases tty <;> simp [inputList, Gen.cliInputOrder, hp]
  have hne' : (if tty then [] else [none]) ++ fs.map some ≠ [] := by
    rcases hne with h | h
    · simp [h]
    · cases tty <;> simp [h]
  have ht : setAlnType none = some Gen.KALIGN_TYPE_UNDEFINED := by decide
  simp [hin, hne', ht, formatOK, defaultConfig, Gen.cliDefault_nthreads]

/-- **(d)** nothing on the command line and stdin not a terminal (`cat x.fa | kalign`): stdin is the one input -/
theorem cli_defaults_stdin : cliParseB [] false = .run (defaultConfig [none]) := by decide

/-! ## (e) early exits -/

/-- **(e)** `--version`/`-v`/`-V`, `-showw`, `-h`/`--help`, a thread count below 1, and "no input at all" end the program
before any library call, in this order of precedence, with the statuses of the source: 0, 0, 0, 1 (`EXIT_FAILURE`) and —
for no input — 0 (`EXIT_SUCCESS`, although nothing was aligned) -/
theorem cli_early_exits (xs : List Item) (tty : Bool) (hw : allWf xs = true) :
    ((lastOpt 10 xs).isSome → cliParseB (tokensOf xs) tty = .version) ∧
    (lastOpt 10 xs = none → (lastOpt 11 xs).isSome → cliParseB (tokensOf xs) tty = .showw) ∧
    (lastOpt 10 xs = none → lastOpt 11 xs = none → (lastOpt 9 xs).isSome → cliParseB (tokensOf xs) tty = .help) ∧
    (lastOpt 10 xs = none → lastOpt 11 xs = none → lastOpt 9 xs = none →
      (∃ v, lastArg 4 xs = some v ∧ atoi v < 1) → cliParseB (tokensOf xs) tty = .badThreads) ∧
    (lastOpt 10 xs = none → lastOpt 11 xs = none → lastOpt 9 xs = none → (∀ v, lastArg 4 xs = some v → 1 ≤ atoi v) →
      tty = true → lastOpt 7 xs = none → filesOf xs = [] → cliParseB (tokensOf xs) tty = .noInput) ∧
    CliOutcome.version.exitStatus = some 0 ∧ CliOutcome.showw.exitStatus = some 0 ∧ CliOutcome.help.exitStatus = some 0 ∧
    CliOutcome.badThreads.exitStatus = some 1 ∧ CliOutcome.noInput.exitStatus = some 0 ∧
    CliOutcome.version.calls = [] ∧ CliOutcome.showw.calls = [] ∧ CliOutcome.help.calls = [] ∧
    CliOutcome.badThreads.calls = [] ∧ CliOutcome.noInput.calls = [] := by
  obtain ⟨hfl, hb⟩ := blockOf_get xs hw
  have b4 := hb 4 (by decide); have b7 := hb 7 (by decide)
  have b9 := hb 9 (by decide); have b10 := hb 10 (by decide); have b11 := hb 11 (by decide)
  simp only [Params.get] at b4 b7 b9 b10 b11
  have init10 : Params.init.version = 0 := rfl
  have init11 : Params.init.showw = 0 := rfl
  have init9 : Params.init.help = 0 := rfl
  rw [cliParse_items xs tty hw, afterLoop_eq]
  refine ⟨?_, ?_, ?_, ?_, ?_, rfl, rfl, rfl, rfl, rfl, rfl, rfl, rfl, rfl, rfl⟩
  · intro h
    cases hl : lastOpt 10 xs with
    | none => simp [hl] at h
    | some o =>
      simp only [hl, fvOfField, convOfField, convert, Val.fv, FV.int.injEq] at b10
      simp [hfl, b10]
  · intro h10 h
    rw [h10] at b10; simp only [Params.get, FV.int.injEq] at b10
    cases hl : lastOpt 11 xs with
    | none => simp [hl] at h
    | some o =>
      simp only [hl, fvOfField, convOfField, convert, Val.fv, FV.int.injEq] at b11
      simp [hfl, b10, b11, init10]
  · intro h10 h11 h
    rw [h10] at b10; simp only [Params.get, FV.int.injEq] at b10
    rw [h11] at b11; simp only [Params.get, FV.int.injEq] at b11
    cases hl : lastOpt 9 xs with
    | none => simp [hl] at h
    | some o =>
      simp only [hl, fvOfField, convOfField, convert, Val.fv, FV.int.injEq] at b9
      simp [hfl, b10, b11, b9, init10, init11]
  · intro h10 h11 h9 ⟨v, hv, hlt⟩
    rw [h10] at b10; simp only [Params.get, FV.int.injEq] at b10
    rw [h11] at b11; simp only [Params.get, FV.int.injEq] at b11
    rw [h9] at b9; simp only [Params.get, FV.int.injEq] at b9
    unfold lastArg at hv
    cases hl : lastOpt 4 xs with
    | none => simp [hl] at hv
    | some o =>
      obtain ⟨v', rfl⟩ := Option.isSome_iff_exists.1 (lastOpt_isSome_arg xs hw 4 (by decide) o hl)
      simp only [hl, Option.map_some, Option.getD_some, Option.some.injEq] at hv
      subst hv
      simp only [hl, fvOfField, convOfField, convert, Val.fv, FV.int.injEq] at b4
      simp [hfl, b10, b11, b9, b4, init10, init11, init9, hlt]
  · intro h10 h11 h9 hn htty h7 hfs
    rw [h10] at b10; simp only [Params.get, FV.int.injEq] at b10
    rw [h11] at b11; simp only [Params.get, FV.int.injEq] at b11
    rw [h9] at b9; simp only [Params.get, FV.int.injEq] at b9
    rw [h7] at b7; simp only [Params.get, FV.str.injEq] at b7
    have hnt : ¬ (blockOf xs).nthreads < 1 := by
      cases hl : lastOpt 4 xs with
      | none =>
        simp only [hl, Params.get, FV.int.injEq] at b4
        rw [b4]; decide
      | some o =>
        obtain ⟨v', rfl⟩ := Option.isSome_iff_exists.1 (lastOpt_isSome_arg xs hw 4 (by decide) o hl)
        simp only [hl, fvOfField, convOfField, convert, Val.fv, FV.int.injEq] at b4
        have := hn v' (by simp [lastArg, hl])
        rw [b4]; omega
    have hin : inputList tty (blockOf xs) (filesOf xs) = [] := by
      simp [inputList, Gen.cliInputOrder, htty, b7, hfs, show Params.init.inFile = none from rfl]
    simp [hfl, b10, b11, b9, init10, init11, init9, hnt, hin]

/-- **(e)** an option error (`'?'` from getopt: unknown or ambiguous option, `=value` on a flag) ends the program with status 1
whatever else is on the command line, before or after; so does a last option whose argument is missing -/
theorem cli_usage_error (pre post : List Arg) (tty : Bool) (h : (scanArgs pre).mode = .err) :
    cliParseB (pre ++ post) tty = .usageError ∧ CliOutcome.usageError.exitStatus = some 1 ∧
    CliOutcome.usageError.calls = [] := by
  refine ⟨?_, rfl, rfl⟩
  have : (scanArgs (pre ++ post)).mode = .err := by
    rw [scanArgs, List.foldl_append]
    exact foldl_step_err post _ h
  simp [cliParseB, finish, this]

theorem cli_missing_argument (argv : List Arg) (tty : Bool) (c : Nat) (h : (scanArgs argv).mode = .arg c) :
    cliParseB argv tty = .usageError := by
  simp [cliParseB, finish, h]


/-! ## (f) from `argv` to the parameters of the dynamic programme -/

def f32 (bits : Nat) : Float32 := Float32.ofBits bits.toUInt32

/-- `kalign_run(msa, n_threads, type, gpo, gpe, tgpe)` hands its arguments to `aln_param_init` unchanged
(Model/Pipeline.lean `core`): the DP parameters for sequences of biotype `bt` -/
def dpParams (bt : Nat) (cfg : CliConfig) : Option (AlnParam Float32) :=
  paramOfTable bt cfg.type (f32 cfg.gpo) (f32 cfg.gpe) (f32 cfg.tgpe)

/-- `aln_param_init`: a penalty argument `>= 0` is used, otherwise the default of the (biotype, type) row -/
def sel (v d : Float32) : Float32 := if v >= 0.0 then v else d

/-- the matrix `paramOfTable` builds from table `k` -/
def submOf (k : Nat) : Option (Array (Array Float32)) :=
  (Gen.matricesBits[k]?).map fun rows =>
    (Array.range 23).map fun i => (Array.range 23).map fun j => Float32.ofBits (UInt32.ofNat ((rows.getD i []).getD j 0))

theorem alnParamInitF_some (bt : Nat) (ty : Int) (g e x : Float32) (p : PSet Float32)
    (ha : alnParamInitF bt ty g e x = some p) :
    ∃ r, lookupRow bt ty = some r ∧ r.ok = true ∧
      p = applyGuards (fun v : Float32 => decide (v >= 0.0)) Gen.overrideGuardsT
        { gpo := Float32.ofBits r.gpoBits.toUInt32, gpe := Float32.ofBits r.gpeBits.toUInt32,
          tgpe := Float32.ofBits r.tgpeBits.toUInt32, mat := r.mat } g e x := by
  unfold alnParamInitF at ha
  cases hr : lookupRow bt ty with
  | none => simp [hr] at ha
  | some r =>
    simp only [hr] at ha
    by_cases hok : r.ok = true
    case neg => simp [hok] at ha
    simp only [hok, if_true] at ha
    split at ha
    · simp only [Option.some.injEq] at ha
      exact ⟨r, rfl, hok, ha.symm⟩
    · cases ha

/-- closed form of `paramOfTable` through C09 (`C09_override_exact`) -/
theorem paramOfTable_fields (bt : Nat) (ty : Int) (g e x : Float32) (ap : AlnParam Float32)
    (h : paramOfTable bt ty g e x = some ap) :
    ∃ r, lookupRow bt ty = some r ∧ r.ok = true ∧
      ap.gpo = sel g (f32 r.gpoBits) ∧ ap.gpe = sel e (f32 r.gpeBits) ∧ ap.tgpe = sel x (f32 r.tgpeBits) ∧
      submOf r.mat = some ap.subm := by
  unfold paramOfTable at h
  cases ha : alnParamInitF bt ty g e x with
  | none => simp [ha] at h
  | some p =>
    simp only [ha] at h
    obtain ⟨r, hr, hok, hp⟩ := alnParamInitF_some bt ty g e x p ha
    have hov := C09_override_exact (fun v : Float32 => decide (v >= 0.0))
      { gpo := Float32.ofBits r.gpoBits.toUInt32, gpe := Float32.ofBits r.gpeBits.toUInt32,
        tgpe := Float32.ofBits r.tgpeBits.toUInt32, mat := r.mat } g e x
    simp only [decide_eq_true_eq] at hov
    rw [← hp] at hov
    obtain ⟨h1, h2, h3, h4⟩ := hov
    cases hm : Gen.matricesBits[p.mat]? with
    | none => simp [hm] at h
    | some rows =>
      simp only [hm, Option.some.injEq] at h
      subst h
      refine ⟨r, hr, hok, by simpa [sel, f32] using h1, by simpa [sel, f32] using h2, by simpa [sel, f32] using h3, ?_⟩
      rw [h4] at hm
      simp [submOf, hm]

/-- **(f)** the DP parameters of a run, from the configuration the command line produced: each penalty is the
command-line value when that is `>= 0` and the default of the (biotype, type) row otherwise; the matrix is the row's -/
theorem cli_to_dp (argv : List Arg) (tty : Bool) (cfg : CliConfig) (bt : Nat) (ap : AlnParam Float32)
    (_h : cliParseB argv tty = .run cfg) (hap : dpParams bt cfg = some ap) :
    ∃ r, lookupRow bt cfg.type = some r ∧ r.ok = true ∧
      ap.gpo = sel (f32 cfg.gpo) (f32 r.gpoBits) ∧ ap.gpe = sel (f32 cfg.gpe) (f32 r.gpeBits) ∧
      ap.tgpe = sel (f32 cfg.tgpe) (f32 r.tgpeBits) ∧ submOf r.mat = some ap.subm :=
  paramOfTable_fields bt cfg.type _ _ _ ap hap

/-- does the item leave field `g` alone -/
def keeps (g : Nat) (it : Item) : Bool :=
  match it.asg with
  | some a => fieldOf a.1 != g
  | none => true

/-- the items of a command line that do not assign field `g` -/
def without (g : Nat) (xs : List Item) : List Item := xs.filter (keeps g)

theorem without_wf (g : Nat) (xs : List Item) (hw : allWf xs = true) : allWf (without g xs) = true := by
  simp only [allWf, List.all_eq_true] at hw ⊢
  exact fun it hit => hw it (List.mem_filter.1 hit).1

theorem without_files (g : Nat) (xs : List Item) : filesOf (without g xs) = filesOf xs := by
  induction xs with
  | nil => rfl
  | cons it r ih =>
    simp only [without, filesOf, List.filter_cons] at ih ⊢
    by_cases hk : keeps g it = true
    · simp only [hk, if_true, List.filterMap_cons, ih]
    · have hfn : it.fileName = none := by
        cases it <;> simp_all [keeps, Item.asg, Item.fileName]
      simp only [hk, Bool.false_eq_true, if_false, List.filterMap_cons, hfn, ih]

theorem without_asgs (g : Nat) (xs : List Item) :
    asgsOf (without g xs) = (asgsOf xs).filter (fun a => fieldOf a.1 != g) := by
  induction xs with
  | nil => rfl
  | cons it r ih =>
    simp only [without, asgsOf, List.filter_cons] at ih ⊢
    cases ha : it.asg with
    | none =>
      have hk : keeps g it = true := by simp [keeps, ha]
      simp only [hk, if_true, List.filterMap_cons, ha, ih]
    | some a =>
      by_cases hk : (fieldOf a.1 != g) = true
      · have hk' : keeps g it = true := by simp [keeps, ha, hk]
        simp only [hk', if_true, List.filterMap_cons, ha, List.filter_cons, hk, ih]
      · have hk' : keeps g it = false := by simpa [keeps, ha] using hk
        simp only [hk', Bool.false_eq_true, if_false, List.filterMap_cons, ha, List.filter_cons, hk, ih]

theorem without_lastOpt (g k : Nat) (xs : List Item) :
    lastOpt k (without g xs) = if k = g then none else lastOpt k xs := by
  unfold lastOpt
  rw [without_asgs]
  simp only [asgsTo, List.filter_filter]
  by_cases hk : k = g
  · subst hk
    have : (asgsOf xs).filter (fun a => (fieldOf a.1 == k) && (fieldOf a.1 != k)) = [] := by
      apply List.filter_eq_nil_iff.2
      intro a _; simp
    simp [this]
  · have : (fun a : Nat × Option Arg => (fieldOf a.1 == k) && (fieldOf a.1 != g)) = fun a => fieldOf a.1 == k := by
      funext a
      by_cases h : fieldOf a.1 = k <;> simp [h, hk]
    simp [hk, this]

/-- dropping every `--gpo` from a well-formed command line resets exactly the `gpo` field -/
theorem blockOf_without_gpo (xs : List Item) (hw : allWf xs = true) :
    blockOf (without 0 xs) = { blockOf xs with gpo := some 3212836864 } := by
  obtain ⟨f1, g1⟩ := blockOf_get (without 0 xs) (without_wf 0 xs hw)
  obtain ⟨f2, g2⟩ := blockOf_get xs hw
  apply Params.ext_get
  · intro g hg
    rw [g1 g hg, without_lastOpt]
    have hgs : g = 0 ∨ g = 1 ∨ g = 2 ∨ g = 3 ∨ g = 4 ∨ g = 5 ∨ g = 6 ∨ g = 7 ∨ g = 8 ∨ g = 9 ∨ g = 10 ∨ g = 11 ∨
        g = 12 := by revert g; decide
    rcases hgs with rfl | rfl | rfl | rfl | rfl | rfl | rfl | rfl | rfl | rfl | rfl | rfl | rfl
    · simp [Params.get, init_eq]
    all_goals (have := g2 _ hg; simp only [Params.get] at this; simp [Params.get, this])
  · simp [f1, f2]

/-- nothing but the `gpo` argument of `kalign_run` depends on the `gpo` field -/
theorem afterLoop_setGpo (p : Params) (pos : List Arg) (tty : Bool) (cfg : CliConfig) (d : Nat)
    (h : afterLoop p pos tty = .run cfg) :
    afterLoop { p with gpo := some d } pos tty = .run { cfg with gpo := d } := by
  obtain ⟨a1, a2, a3, a4, a5, a6, a7, a8, -, a10, a11, a12, a13, a14, a15, a16⟩ := afterLoop_run h
  have q1 : ({ p with gpo := some d } : Params).fault = false := a1
  have q2 : ({ p with gpo := some d } : Params).version = 0 := a2
  have q3 : ({ p with gpo := some d } : Params).showw = 0 := a3
  have q4 : ({ p with gpo := some d } : Params).help = 0 := a4
  have q5 : ¬ ({ p with gpo := some d } : Params).nthreads < 1 := by show ¬ p.nthreads < 1; omega
  have q6 : inputList tty ({ p with gpo := some d } : Params) pos ≠ [] := a6
  have q7 : formatOK ({ p with gpo := some d } : Params).format = true := a7
  have q8 : setAlnType ({ p with gpo := some d } : Params).inType = some cfg.type := a8
  have q9 : ({ p with gpo := some d } : Params).gpo = some d := rfl
  have q10 : ({ p with gpo := some d } : Params).gpe = some cfg.gpe := a10
  have q11 : ({ p with gpo := some d } : Params).tgpe = some cfg.tgpe := a11
  have q12 : inputList tty ({ p with gpo := some d } : Params) pos = cfg.inputs := a12.symm
  have q13 : ({ p with gpo := some d } : Params).quiet = cfg.quiet := a13.symm
  have q14 : ({ p with gpo := some d } : Params).nthreads = cfg.nthreads := a14.symm
  have q15 : ({ p with gpo := some d } : Params).outfile = cfg.outfile := a15.symm
  have q16 : ({ p with gpo := some d } : Params).format = cfg.format := a16.symm
  generalize ({ p with gpo := some d } : Params) = q at *
  rw [afterLoop_eq]
  simp only [q1, q2, q3, q4, q5, q6, q7, q8, q9, q10, q11]
  simp [q12, q13, q14, q15, q16]

/-- **(f) a user-supplied `--gpo x` replaces exactly `gpo`, from `argv` to the dynamic programme.**  On a well-formed
command line whose last `--gpo` has the argument `v`, with `(float) atof(v) >= 0`: if the run reaches the library and
`aln_param_init` accepts the parameters then the gap-open penalty of the DP is exactly `(float) atof(v)`; and the same command
line without its `--gpo` options reaches the library with a configuration that differs in `gpo` only (back at −1) and gives
the same gap-extension penalty, the same terminal penalty and the same substitution matrix -/
theorem cli_gpo_override_to_dp (xs : List Item) (tty : Bool) (cfg : CliConfig) (v : Arg) (bt : Nat)
    (ap : AlnParam Float32) (hw : allWf xs = true) (h : cliParseB (tokensOf xs) tty = .run cfg)
    (hv : lastArg 0 xs = some v) (hap : dpParams bt cfg = some ap) (hnn : f32 cfg.gpo >= 0.0) :
    atofBits v = some cfg.gpo ∧ ap.gpo = f32 cfg.gpo ∧
    cliParseB (tokensOf (without 0 xs)) tty = .run { cfg with gpo := 3212836864 } ∧
    ∀ ap', dpParams bt { cfg with gpo := 3212836864 } = some ap' →
      ap'.gpe = ap.gpe ∧ ap'.tgpe = ap.tgpe ∧ ap'.subm = ap.subm := by
  have hc := (cli_run_config xs tty cfg hw h).1
  rw [hv] at hc
  obtain ⟨r, hr, -, h1, h2, h3, h4⟩ := paramOfTable_fields bt cfg.type _ _ _ ap hap
  refine ⟨hc, by rw [h1, sel, if_pos hnn], ?_, ?_⟩
  · rw [cliParse_items _ tty (without_wf 0 xs hw), without_files, blockOf_without_gpo xs hw]
    rw [cliParse_items xs tty hw] at h
    exact afterLoop_setGpo _ _ _ _ _ h
  · intro ap' hap'
    obtain ⟨r', hr', -, -, h2', h3', h4'⟩ := paramOfTable_fields bt _ _ _ _ ap' hap'
    simp only at hr' h2' h3'
    rw [hr] at hr'
    cases hr'
    refine ⟨h2'.trans h2.symm, h3'.trans h3.symm, ?_⟩
    have := h4'.symm.trans h4
    simpa using this


/-- `aln_param_init` in the exact carrier of the C09 theorems (`alnParamInit`, penalties ×1000) on the exact values of the
three `float`s that reach `kalign_run` -/
def dpParamsExact (bt : Nat) (cfg : CliConfig) : Option (PSet Int) :=
  match milliOfBits cfg.gpo, milliOfBits cfg.gpe, milliOfBits cfg.tgpe with
  | some g, some e, some x => alnParamInit bt cfg.type g e x
  | _, _, _ => none

/-- **(f), exact carrier**: a command line whose only penalty option is `--gpo x`, with `0 ≤ x ≤` the bound of
`aln_param_init`, changes the gap-open penalty to `x` and nothing else (`C09_single_override` from `argv` on).
`g` is the exact value (×1000) of the `float` that reaches `kalign_run`; `p` the defaults of the (biotype, type). -/
theorem cli_single_gpo_exact (xs : List Item) (tty : Bool) (cfg : CliConfig) (bt : Nat) (p : PSet Int) (g : Int)
    (hw : allWf xs = true) (h : cliParseB (tokensOf xs) tty = .run cfg)
    (h1 : lastArg 1 xs = none) (h2 : lastArg 2 xs = none)
    (hg : milliOfBits cfg.gpo = some g) (h0 : 0 ≤ g) (hc : g ≤ capK)
    (hd : alnParamInit bt cfg.type (-1) (-1) (-1) = some p) :
    dpParamsExact bt cfg = some { p with gpo := g } := by
  obtain ⟨-, c1, c2, -⟩ := cli_run_config xs tty cfg hw h
  rw [h1] at c1; rw [h2] at c2
  simp only [Option.some.injEq] at c1 c2
  have e1 : milliOfBits cfg.gpe = some (-1000) := by rw [← c1]; decide
  have e2 : milliOfBits cfg.tgpe = some (-1000) := by rw [← c2]; decide
  have e : alnParamInit bt cfg.type g (-1000) (-1000) = alnParamInit bt cfg.type g (-1) (-1) := by
    rw [alnParamInit_eq, alnParamInit_eq]; simp
  simp only [dpParamsExact, hg, e1, e2, e]
  exact (C09_single_override bt cfg.type p g h0 hc hd).1

/-! ## concrete command lines (non-vacuity; all by kernel evaluation of the model) -/

section examples

/-- `kalign --gpo 5 a.fa -n 2 -gpo=7 b.fa -q` -/
def exA : List Item :=
  [.long true b!"gpo" false b!"5", .file b!"a.fa", .short 110 b!"2", .long false b!"gpo" true b!"7", .file b!"b.fa",
   .shortFlag 113]
/-- `kalign a.fa -q --gpo 5 b.fa -gpo=7 -n 2`: same options, other places -/
def exB : List Item :=
  [.file b!"a.fa", .shortFlag 113, .long true b!"gpo" false b!"5", .file b!"b.fa", .long false b!"gpo" true b!"7",
   .short 110 b!"2"]

example : tokensOf exA = [b!"--gpo", b!"5", b!"a.fa", b!"-n", b!"2", b!"-gpo=7", b!"b.fa", b!"-q"] := by decide
example : allWf exA = true ∧ allWf exB = true := by decide
/-- the hypotheses of `cli_override_exact` hold for `exA`, `exB`, and the common outcome is a run with the LAST `--gpo` -/
example : cliParseB (tokensOf exA) true = cliParseB (tokensOf exB) true :=
  cli_override_exact exA exB true (by decide) (by decide) (by decide) (by decide)
example : cliParseB (tokensOf exA) true =
    .run { defaultConfig [some b!"a.fa", some b!"b.fa"] with gpo := 0x40e00000, nthreads := 2, quiet := 1 } := by decide
/-- swapping the two `--gpo` is NOT covered by the theorem and does change the outcome -/
example : cliParseB [b!"--gpo", b!"7", b!"--gpo", b!"5", b!"a.fa"] true ≠ cliParseB [b!"--gpo", b!"5", b!"--gpo", b!"7", b!"a.fa"] true := by
  decide

/-- spellings: exact names, abbreviations, ambiguity -/
example : longLookup b!"tgpe" = .found 1 8 ∧ longLookup b!"tg" = .found 1 8 ∧ longLookup b!"ty" = .found 1 13 ∧
    longLookup b!"t" = .ambiguous ∧ longLookup b!"gp" = .ambiguous ∧ longLookup b!"s" = .ambiguous ∧
    longLookup b!"in" = .found 1 105 ∧ longLookup b!"inp" = .found 1 105 ∧ longLookup b!"i" = .ambiguous ∧
    longLookup b!"out" = .found 1 111 ∧ longLookup b!"ou" = .ambiguous ∧ longLookup b!"x" = .notFound ∧
    longLookup b!"h" = .found 0 104 ∧ longLookup b!"sh" = .found 0 5 := by decide
example : cliParseB [b!"--gp", b!"1", b!"a.fa"] true = .usageError := by decide
example : cliParseB [b!"-type", b!"dna", b!"a.fa"] true = cliParseB [b!"--type=dna", b!"a.fa"] true ∧
    cliParseB [b!"--ty", b!"dna", b!"a.fa"] true = cliParseB [b!"--type=dna", b!"a.fa"] true ∧
    cliParseB [b!"a.fa", b!"-type=dna"] true = cliParseB [b!"--type=dna", b!"a.fa"] true := by decide
example : cliParseB [b!"-n4", b!"a.fa"] true = .run { defaultConfig [some b!"a.fa"] with nthreads := 4 } ∧
    cliParseB [b!"-qn", b!"3", b!"a.fa"] true = .run { defaultConfig [some b!"a.fa"] with nthreads := 3, quiet := 1 } ∧
    cliParseB [b!"-n=2", b!"a.fa"] true = .run { defaultConfig [some b!"a.fa"] with nthreads := 2 } ∧
    cliParseB [b!"-o=x", b!"a.fa"] true = .usageError ∧
    cliParseB [b!"-ofile", b!"a.fa"] true = .run { defaultConfig [some b!"a.fa"] with outfile := some b!"file" } := by
  decide

/-- (b): stdin, then `-i`, then the positional files; options after `--` are files -/
example : cliParseB [b!"b.fa", b!"-i", b!"a.fa", b!"c.fa", b!"--", b!"-q"] false =
    .run (defaultConfig [none, some b!"a.fa", some b!"b.fa", some b!"c.fa", some b!"-q"]) := by decide

/-- (c) -/
example : (Item.file b!"a.fa").wf = true := by decide
example : setAlnType (some b!"DNA") = none ∧ cliParseB [b!"--type", b!"DNA", b!"a.fa"] true = .badType := by decide
/-- the words are matched with `strstr`, in the order internal, rna, dna, protein, divergent -/
example : cliParseB [b!"--type", b!"protein_dna", b!"a.fa"] true =
    .run { defaultConfig [some b!"a.fa"] with type := Gen.KALIGN_TYPE_DNA } := by decide

/-- (e) -/
example : cliParseB [b!"-h"] true = .help ∧ cliParseB [b!"--version"] false = .version ∧ cliParseB [b!"-V", b!"a"] true = .version ∧
    cliParseB [b!"-showw"] true = .showw ∧ cliParseB [b!"-n", b!"0", b!"a.fa"] true = .badThreads ∧
    cliParseB [b!"-n", b!"-1", b!"a.fa"] true = .badThreads ∧ cliParseB [b!"-n", b!"x", b!"a.fa"] true = .badThreads ∧
    cliParseB [] true = .noInput ∧ cliParseB [b!"-q"] true = .noInput ∧
    cliParseB [b!"-h", b!"-n", b!"0"] true = .help ∧ cliParseB [b!"-V", b!"--foo"] true = .usageError ∧
    cliParseB [b!"a.fa", b!"--gpo"] true = .usageError ∧ cliParseB [b!"-f", b!"phylip", b!"a.fa"] true = .badFormat := by
  decide
example : allWf [.shortFlag 104, .short 110 b!"0"] = true ∧ (lastOpt 9 [.shortFlag 104, .short 110 b!"0"]).isSome = true := by
  decide
example : (scanArgs [b!"--foo"]).mode = .err ∧ (scanArgs [b!"a.fa", b!"--gpo"]).mode = .arg 6 := by decide

/-- `atoi` / `atof` -/
example : atoi b!" -12x" = -12 ∧ atoi b!"4294967297" = 1 ∧ atoi b!"99999999999999999999" = -1 ∧ atoi b!"" = 0 := by decide
example : atofBits b!"5.5" = some 0x40b00000 ∧ atofBits b!"0.1" = some 0x3dcccccd ∧ atofBits b!"-1" = some 0xbf800000 ∧
    atofBits b!"1e39" = some 0x7f800000 ∧ atofBits b!"1e-46" = some 0 ∧ atofBits b!"0x1.8p1" = some 0x40400000 ∧
    atofBits b!"abc" = some 0 ∧ atofBits b!"nan" = some 0x7fc00000 ∧ atofBits b!"nan(1)" = none ∧
    atofBits b!"16777217" = some 0x4b800000 ∧
    -- double rounding: 1 + 2^-24 + 1e-29 is nearer to 1 + 2^-23, but `atof` first rounds it to the double 1 + 2^-24, which then
    -- ties to even, 1.0
    atofBits b!"1.00000005960464477539062500001" = some 0x3f800000 := by decide

/-- (f): `kalign --type dna --gpo 5.5 a.fa` on nucleotide input (biotype 1): the hypotheses of `cli_single_gpo_exact` and of
`cli_gpo_override_to_dp` are satisfiable, and the DP runs with gap open 5.5, extension 6, terminal 0 -/
def exF : List Item := [.long true b!"type" false b!"dna", .long true b!"gpo" false b!"5.5", .file b!"a.fa"]
example : allWf exF = true ∧ lastArg 0 exF = some b!"5.5" ∧ lastArg 1 exF = none ∧ lastArg 2 exF = none := by decide
def exFcfg : CliConfig := { defaultConfig [some b!"a.fa"] with type := Gen.KALIGN_TYPE_DNA, gpo := 0x40b00000 }
example : cliParseB (tokensOf exF) true = .run exFcfg ∧ milliOfBits exFcfg.gpo = some 5500 ∧ (5500 : Int) ≤ capK ∧
    (alnParamInit 1 exFcfg.type (-1) (-1) (-1)).map (fun p => (p.gpo, p.gpe, p.tgpe)) = some (8000, 6000, 0) ∧
    (dpParamsExact 1 exFcfg).map (fun p => (p.gpo, p.gpe, p.tgpe)) = some (5500, 6000, 0) := by
  decide

end examples

end Kalign.Cli
