import KalignModel.Props.C05PipelineSoft2
/-!
# `kalignRunSoft2`: a run evaluated by the Lean kernel (non-vacuity of Props/C05PipelineSoft2.lean)
-/
namespace Kalign.Pipeline
open Kalign Kalign.Kmeans Kalign.SoftF32

/-! ## the whole core of a `kalignRunSoft2` run, evaluated by the kernel

Three DNA sequences (internal codes).  The kernel computes the `SoftF32` distance matrix (bit patterns), runs `upgmaS`
(`exSmall`), hence the task table `buildTasks2` returns (`exBuild`: `buildTasks2_small` + `exSmall`; `sort_tasks` by `simp`, its
well-founded merge sort does not reduce in the kernel), and then the complete progressive alignment on `SoftF32` — one
sequence–sequence and one sequence–profile Hirschberg run with their monitors, `update_n`, `set_gap_penalties_n` — down to the gap
vectors (`exCore`).  The op `kalign_sys_soft2` compares exactly this computation with the C program. -/

deriving instance DecidableEq for Tree

def exCodes : Array (List Nat) := #[[0, 1, 2, 3, 1], [0, 1, 3, 1], [0, 2, 3]]
def exTree2 : Tree := .node (.leaf 0) (.node (.leaf 1) (.leaf 2))

set_option maxRecDepth 100000 in
/-- `d_estimation(…,1)` on `SoftF32`: `dist + add` with `add = 5/10000, 4/10000, 3/10000` on the diagonal, `1 + 4/10000`, `1 + 3/10000` off it -/
example : (distMatrixS exCodes.toList).map (fun m => m.map fun r => r.map SoftF32.raw) =
    some [[973279855, 1065356571, 1065356571], [1065356571, 970045207, 1065355733], [1065356571, 1065355733, 966609234]] := by
  decide +kernel

set_option maxRecDepth 100000 in
theorem exSmall : smallTreeS exCodes (List.range exCodes.size) = some exTree2 := by decide +kernel

theorem exTable2 : (Kmeans.sortTasks (treeTasks exTree2 3)).toArray = #[(1, 2, 3), (0, 3, 4)] := by
  simp [Kmeans.sortTasks, treeTasks, exTree2, Sched.label, Sched.labelFrom, Kmeans.createTasks, Sched.LTree.id, msortBy, mergeBy,
    taskTakeLeft]

theorem exBuild : buildTasks2 true exCodes = .ok #[(1, 2, 3), (0, 3, 4)] := by
  rw [buildTasks2_small true exCodes (by decide) (by decide) (by decide), exSmall]
  exact congrArg Except.ok exTable2

/-- `coreCB` reads the builder only at the tree codes -/
theorem coreCB_congr {α : Type} [Score α] (build build' : Array (List Nat) → Except PipeErr (Array (Nat × Nat × Nat)))
    (pm : Option (AlnParam α)) (c1 c2 : List (List Nat)) (h : build c1.toArray = build' c1.toArray) :
    coreCB build pm c1 c2 = coreCB build' pm c1 c2 := by
  unfold coreCB
  rw [h]

set_option maxRecDepth 100000 in
/-- the gap vectors of the three rows: `ACGTC / AC-TC / A-GT-` -/
theorem exCore : (coreCB (buildTasks2 true) (some exApS) exCodes.toList exCodes.toList).toOption =
    some [[0, 0, 0, 0, 0, 0], [0, 0, 1, 0, 0], [0, 0, 1, 1]] := by
  rw [coreCB_congr (buildTasks2 true) (fun _ => .ok #[(1, 2, 3), (0, 3, 4)]) (some exApS) exCodes.toList exCodes.toList
    (by rw [Array.toArray_toList]; exact exBuild)]
  decide +kernel

end Kalign.Pipeline
