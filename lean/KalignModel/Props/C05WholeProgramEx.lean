import KalignModel.Props.C05WholeProgram
import KalignModel.Props.C05PipelineSoft2Ex
/-!
# `kalignFileSoft2` on a concrete two-file input (non-vacuity of Props/C05WholeProgram.lean)

Two FASTA files, `>A ACGTC >B ACTC` and `>C AGT`.  What the kernel can evaluate is evaluated:

* the readers on both files (`exRecs12`: `decide +kernel` through `splitLines`, `detectFormat`, `readFasta`), hence the records of
  the msa the reading loop returns (`exRead`) and the size bound `SizeOK` (`exSizeOK`) — so `kalignFileSoft2_never_faults` and
  `kalignFileSoft2_errors` apply to these files for every `type`, penalty triple and format word (`exNeverFaults`, `exErrors`);
* the run stage: `kalign_essential_input_check` and the two sorts (`exCanonEq`, `exFinish`: the input is in canonical order, so the
  well-founded `List.mergeSort` is removed with `mergeSort_of_pairwise`), the conversion to internal codes, the `SoftF32` guide tree
  (`exBuild`, Props/C05PipelineSoft2Ex.lean), `aln_param_init` and the complete progressive alignment on `SoftF32` with its monitors
  (`exCoreDna`: `decide +kernel`), `make_linear_sequence` (`exStages`);
* the FASTA writer (`exWriteFasta`: `decide +kernel`; the Clustal and MSF writers sort their line buffer with the well-founded
  `List.mergeSort`, which the kernel does not unfold).

What the kernel cannot evaluate is the binary64 arithmetic of `detect_alphabet` (Lean's `Float`): whether the second file is
accepted by `merge_msa` and the `biotype` of the msa.  These enter `exRun` as the hypotheses `readFiles … = .ok m` and
`m.biotype = 1`; `#eval` of the same term confirms both (the result is the file `exOutFasta`).
-/
namespace Kalign.PipelineFile
open Kalign Kalign.IO Kalign.Pipeline Kalign.SoftF32 List

def exF1 : Bytes := ascii ">A\nACGTC\n>B\nACTC\n"
def exF2 : Bytes := ascii ">C\nAGT\n"
def exFiles : List (Option Bytes) := [some exF1, some exF2]

/-- the three records, with the gap vectors the FASTA reader leaves -/
def exSeqs : List SeqRec :=
  [⟨ascii "A", ascii "ACGTC", [0, 0, 0, 0, 0, 0]⟩, ⟨ascii "B", ascii "ACTC", [0, 0, 0, 0, 0]⟩, ⟨ascii "C", ascii "AGT", [0, 0, 0, 0]⟩]

set_option maxRecDepth 100000 in
/-- `kalign_read_input` on each of the two files, evaluated by the kernel -/
theorem exRecs12 : ([exF1, exF2].map fileRecs).flatten = exSeqs := by decide +kernel

/-- the records of whatever msa the reading loop returns -/
theorem exRead (m : Msa) (h : readFiles exFiles = .ok m) : m.seqs = exSeqs := by
  rw [(readFiles_seqs exFiles m h).1]
  exact exRecs12

theorem exSizeOK (m : Msa) (h : readFiles exFiles = .ok m) : SizeOK m := by
  unfold SizeOK maxLen
  rw [exRead m h]
  decide

/-- **non-vacuity of (a)**: the hypothesis of `kalignFileSoft2_never_faults` holds for the two files -/
theorem exNeverFaults (ver base date : Bytes) (type : Int) (gpo gpe tgpe : SoftF32) (fmt : Option String) :
    kalignFileSoft2 ver base date exFiles type gpo gpe tgpe fmt ≠ .error .readFault ∧
    kalignFileSoft2 ver base date exFiles type gpo gpe tgpe fmt ≠ .error .writeFault ∧
    kalignFileSoft2 ver base date exFiles type gpo gpe tgpe fmt ≠ .error (.run .fault) ∧
    kalignFileSoft2 ver base date exFiles type gpo gpe tgpe fmt ≠ .error (.run .tree) ∧
    kalignFileSoft2 ver base date exFiles type gpo gpe tgpe fmt ≠ .error (.run .monitor) ∧
    kalignFileSoft2 ver base date exFiles type gpo gpe tgpe fmt ≠ .error (.run .fuel) ∧
    kalignFileSoft2 ver base date exFiles type gpo gpe tgpe fmt ≠ .error (.run .badByte) :=
  kalignFileSoft2_never_faults ver base date exFiles type gpo gpe tgpe fmt exSizeOK

/-- **non-vacuity of (b)** -/
theorem exErrors (ver base date : Bytes) (type : Int) (gpo gpe tgpe : SoftF32) (fmt : Option String) (e : FileErr)
    (he : kalignFileSoft2 ver base date exFiles type gpo gpe tgpe fmt = .error e) :
    e = .read ∨ e = .noInput ∨ e = .run .tooFew ∨ e = .run .alphabet ∨ e = .run .param ∨ e = .format :=
  kalignFileSoft2_errors ver base date exFiles type gpo gpe tgpe fmt exSizeOK e he

/-- a missing file among the inputs: the hypothesis of (a) holds trivially (the reading loop fails), the answer is `.read` -/
example (ver base date : Bytes) (type : Int) (gpo gpe tgpe : SoftF32) (fmt : Option String) :
    kalignFileSoft2 ver base date [some exF1, none, some exF2] type gpo gpe tgpe fmt = .error .read :=
  kalignFileSoft2_missing_file ver base date _ type gpo gpe tgpe fmt (by decide)

/-! ## the run stage and the writer, evaluated by the kernel -/

/-- the default penalty argument `-1.0F` -/
def exD : SoftF32 := ofRaw 0xbf800000

/-- the sequences as `kalign_run` sees them -/
def exInp : List InSeq :=
  [⟨ascii "A", "ACGTC".toList⟩, ⟨ascii "B", "ACTC".toList⟩, ⟨ascii "C", "AGT".toList⟩]

def exCanon : List RSeq :=
  [⟨ascii "A", "ACGTC".toList, 0⟩, ⟨ascii "B", "ACTC".toList, 1⟩, ⟨ascii "C", "AGT".toList, 2⟩]

/-- the rows of the alignment: `ACGTC / AC-TC / AG-T-` -/
def exGRows : List GRow :=
  [[some 'A', some 'C', some 'G', some 'T', some 'C'], [some 'A', some 'C', none, some 'T', some 'C'],
   [some 'A', some 'G', none, some 'T', none]]

def exRows : List (Name × GRow) := [ascii "A", ascii "B", ascii "C"].zip exGRows

theorem exInpEq : exSeqs.map toInSeq = exInp := by decide +kernel

/-- `kalign_essential_input_check` (kernel) + `msa_sort_len_name` (the input is in canonical order already) -/
theorem exCanonEq : canon exInp = some exCanon := by
  have h : essentialInputCheck exInp = some exCanon := by decide +kernel
  unfold canon
  rw [h]
  simp only [Option.map_some, Option.some.injEq]
  exact mergeSort_of_pairwise (by decide)

theorem exCodesEq : ((view exCanon).map fun x => bytesOf x.2).map (convertN 5) = exCodes.toList := by decide +kernel

def exPmDna : Option (AlnParam SoftF32) := paramOfTableS Bio.dna.code (-1) exD exD exD

set_option maxRecDepth 100000 in
/-- `aln_param_init` for DNA with default penalties and the whole progressive alignment on `SoftF32`, on the task table
`exBuild` — one sequence–sequence and one sequence–profile Hirschberg run with their monitors: the gap vectors -/
theorem exCoreDna : (coreCB (fun _ => .ok #[(1, 2, 3), (0, 3, 4)]) exPmDna exCodes.toList exCodes.toList).toOption =
    some [[0, 0, 0, 0, 0, 0], [0, 0, 1, 0, 0], [0, 0, 1, 1]] := by
  decide +kernel

/-- stages 3–7 of `kalign_run` (conversion, guide tree, parameters, progressive alignment, `make_linear_sequence`) -/
theorem exStages : stagesCB (buildTasks2 true) Bio.dna (fun bio => paramOfTableS bio.code (-1) exD exD exD) (view exCanon) =
    .ok exGRows := by
  unfold stagesCB
  simp only [treeAlphabet, alnAlphabet]
  rw [exCodesEq]
  have hc := exCoreDna
  rw [← coreCB_congr (buildTasks2 true) (fun _ => .ok #[(1, 2, 3), (0, 3, 4)]) exPmDna exCodes.toList exCodes.toList
    (by rw [Array.toArray_toList]; exact exBuild)] at hc
  change (coreCB (buildTasks2 true) (paramOfTableS Bio.dna.code (-1) exD exD exD) exCodes.toList exCodes.toList).toOption = _ at hc
  cases hcore : coreCB (buildTasks2 true) (paramOfTableS Bio.dna.code (-1) exD exD exD) exCodes.toList exCodes.toList with
  | error e => rw [hcore] at hc; cases hc
  | ok gaps =>
    rw [hcore] at hc
    simp only [Except.toOption, Option.some.injEq] at hc
    subst hc
    simp only [Except.ok.injEq]
    decide +kernel

/-- `msa_sort_rank`: the ranks are `0, 1, 2` already -/
theorem exFinish : finish exCanon exGRows = exRows := by
  unfold finish sortRankBy
  rw [mergeSort_of_pairwise (by decide)]
  decide +kernel

/-- **`kalign_run` on the three records, DNA, default penalties** -/
theorem exKalignRun : kalignRunWithCB (fun _ => Bio.dna) (buildTasks2 true)
    (fun bio => paramOfTableS bio.code (-1) exD exD exD) exInp = .ok exRows := by
  unfold kalignRunWithCB
  have hb : hasBadByte exInp = false := by decide +kernel
  have hbio : bioOf (fun _ => Bio.dna) exInp = Bio.dna := rfl
  simp only [hb, Bool.false_eq_true, if_false, hbio, exCanonEq, exStages, exFinish]

theorem inSeqs_eq (m : Msa) : (dealignStep m).seqs.map toInSeq = m.seqs.map toInSeq := by
  unfold dealignStep
  split
  · simp [toInSeq, Function.comp_def]
  · rfl

theorem exRunMsa (m : Msa) (h : readFiles exFiles = .ok m) (hbio : m.biotype = 1) :
    runMsaSoft2 m (-1) exD exD exD = .ok exRows := by
  unfold runMsaSoft2
  simp only [gapsClear_of_read exFiles m h, Bool.not_true, Bool.false_eq_true, if_false, dealignStep_biotype, hbio,
    inSeqs_eq, exRead m h, exInpEq]
  exact exKalignRun

/-- the output file for `--format fasta` -/
def exOutFasta : Bytes := ascii ">A\nACGTC\n>B\nAC-TC\n>C\nAG-T-\n"

def wrOut : WriteResult → Option Bytes
  | .ok b => some b
  | _ => none

set_option maxRecDepth 100000 in
/-- `kalign_write_msa(msa, out, "fasta")` on the finished alignment, evaluated by the kernel -/
theorem exWriteFasta : wrOut (writeMsa (ascii "3.4.1") exDate (fmtBytes (some "fasta")) (alignmentOf exRows 1 (ascii "out.fa"))) =
    some exOutFasta := by decide +kernel

/-- **the whole program on the two files**: reading loop, `dealign_msa`, `kalign_run` on `SoftF32`, `kalign_write_msa` — everything
evaluated by the kernel except the binary64 alphabet detector, whose two verdicts are the hypotheses `h` (the second file is merged)
and `hbio` (the msa is DNA).  `#eval kalignFileSoft2 (ascii "3.4.1") (ascii "out.fa") exDate exFiles (-1) exD exD exD (some "fasta")`
returns `.ok exOutFasta`. -/
theorem exRun (m : Msa) (h : readFiles exFiles = .ok m) (hbio : m.biotype = 1) :
    kalignFileSoft2 (ascii "3.4.1") (ascii "out.fa") exDate exFiles (-1) exD exD exD (some "fasta") = .ok exOutFasta := by
  unfold kalignFileSoft2 kalignFileWith
  rw [h]
  simp only [exRunMsa m h hbio, dealignStep_biotype, hbio]
  have hw := exWriteFasta
  cases hwr : writeMsa (ascii "3.4.1") exDate (fmtBytes (some "fasta")) (alignmentOf exRows 1 (ascii "out.fa")) with
  | fail => rw [hwr] at hw; cases hw
  | fault => rw [hwr] at hw; cases hw
  | ok b =>
    rw [hwr] at hw
    simp only [wrOut, Option.some.injEq] at hw
    rw [hw]

/-- (c) on that run: the integrity and shape statements hold for `exOutFasta` (instance of `kalignFileSoft2_ok_shape`) -/
example (m : Msa) (h : readFiles exFiles = .ok m) (hbio : m.biotype = 1) :
    ∃ m A t, Wrote (ascii "3.4.1") (ascii "out.fa") exDate exFiles (some "fasta") exOutFasta m A t ∧
      A.rows.map (fun r => (r.name, r.row.filter (· ≠ 45))) = keptRecs m.seqs ∧
      (∀ r ∈ A.rows, ∀ b ∈ r.row, b = 45 ∨ isAlpha b = true) ∧
      (∀ r ∈ A.rows, r.row.length = A.alnlen) ∧ 2 ≤ A.rows.length ∧
      (t = 1 → FastaShape A exOutFasta) ∧ (t = 3 → CluShape (ascii "3.4.1") A exOutFasta) ∧ (t = 2 → MsfShape exDate A exOutFasta) :=
  kalignFileSoft2_ok_shape (exRun m h hbio)

end Kalign.PipelineFile
