import KalignModel.Lemmas.Api
import KalignModel.Gen.Omp
/-!
# C16 — a call's result does not depend on earlier calls

"Within one process, any sequence of read / align / write / free calls with varying inputs, types,
penalties and thread counts gives, for each call, the result that call gives in a fresh process; after
the objects are freed nothing the library allocated remains allocated (the OpenMP runtime's own thread
pool aside)."

Model: Model/Api.lean (`step`, `run` over `Op`), with the computations as parameters `P : Params`
that receive every global they read as an argument.  Theorems:

* `globals_overwritten`   — `kalign_run` sets the team size from its argument before any use and every
                            distance computation re-initialises the mask: the result of `kalign_run`
                            is `runPure`, which mentions no global; its effect on the globals is a
                            constant overwrite.
* `history_independent`   — for every history, every next call returns what it returns in a fresh
                            process (arbitrary initial globals) that holds the same argument objects;
                            also the objects it leaves behind are the same.  `history_independent_nth`
                            is the same statement for the k-th output of a run.
* `ledger_invariant`      — after *any* history the ledger holds exactly the objects of the live handles:
                            every call frees every temporary it allocates, on the success path and on
                            every failure path (`kalign_read_input`: missing file, `fopen` failure, format
                            reader failure, detector failure, merge failure, no sequences; `kalign_run`:
                            input check, parameter failure; `kalign()`: every stage; write and compare
                            failures) …
* `ledger_balanced`       — … hence after freeing all live handles nothing remains allocated.  No hypothesis.
* `read_call_balanced`, `read_nothing_keeps_msa` — the per-call facts about `kalign_read_input`.
* history of this theorem: the ledger exposed two leaks of the C code, both confirmed with LeakSanitizer
                            and since repaired in /repo.  (i) up to 4036b80/7d4bd68 the `ERROR:` path of
                            `kalign_read_input` freed neither the `in_buffer` nor the stopwatch (input
                            `ACGT\n>a\nACGT\n>b\nACGT\n`: 24 658 bytes per call); (ii) up to 4c3a0a7
                            `read_file_stdin` lost the `in_buffer` it had allocated when `fopen` failed on
                            an existing file (mode-000 file / EMFILE: 24 592 bytes per call).
                            `read_call_leaked_before_4c3a0a7` keeps (ii) as a statement about the
                            pre-repair call `readInputPre4c3a0a7`.
* `writable_globals`      — frame obligation, re-checked against `nm` of the library objects on every run.

Level: **S** about the state-machine model.  (a) is close to true by construction in a functional model;
its content is *where* the model writes and reads globals, the frame obligation, and the tie (random
histories in one harness process vs. one process per call, malloc/free interposition — DESIGN §4 C16).
-/
namespace Kalign.C16
open Kalign Kalign.Api

variable (P : Params)

/-! ## (0) frame: which globals exist -/

/-- the only writable file-scope object of the library; `ompThreads` is the OpenMP ICV -/
theorem writable_globals : Gen.writableGlobals = ["bpm.c:BROADCAST_MASK"] := by decide

/-- `omp_set_num_threads` is called in `kalign_run` and nowhere else; `kalign` only forwards `n_threads`;
no other function consults the OpenMP runtime (no `omp_get_*`) -/
theorem thread_use_sites : Gen.threadUses = [
    "aln_controller.c:aln_runner:run_parallel",
    "aln_mem.c:alloc_aln_mem:run_parallel",
    "aln_param.c:aln_param_init:n_threads+nthreads",
    "aln_run.c:create_msa_tree:nthreads+run_parallel",
    "aln_run.c:recursive_aln:run_parallel",
    "aln_wrap.c:kalign:n_threads",
    "aln_wrap.c:kalign_run:n_threads+omp_set_num_threads"] := by decide

/-! ## (1) globals are overwritten before they are read -/

/-- `kalign_run`: (i) what it computes is `runPure`, a function of the msa and the configuration in which
the team size read is `P.threads cfg` and the mask flag read is `true` — whatever the globals were;
(ii) unless the input check fails before anything global is touched, it leaves the globals at
`⟨P.threads cfg, true⟩`; (iii) it frees every temporary it allocates; (iv) the distance computation reads
the mask only after setting it. -/
theorem globals_overwritten (m : P.Msa) (cfg : P.Cfg) (w : World) :
    (kalignRun P m cfg w).1 = runPure P m cfg ∧
    (kalignRun P m cfg w).2.g = (if (P.prepare m).2 then ⟨P.threads cfg, true⟩ else w.g) ∧
    (kalignRun P m cfg w).2.ledger = w.ledger ∧
    (dEstimation0 P m w).1 = P.distances m true w.g.ompThreads :=
  ⟨kalignRun_fst P m cfg w, kalignRun_g P m cfg w, kalignRun_ledger P m cfg w, dEstimation0_reads P m w⟩

/-- consequently two worlds give the same result -/
theorem run_ignores_globals (m : P.Msa) (cfg : P.Cfg) (w w' : World) :
    (kalignRun P m cfg w).1 = (kalignRun P m cfg w').1 := by
  rw [kalignRun_fst, kalignRun_fst]

/-- `read`, `write`, `compare`, `free` neither read nor write a global -/
theorem globals_frame (s : State P) (op : Op P)
    (hop : match op with | .run _ _ => False | .kalign _ _ => False | _ => True) :
    (step P s op).2.w.g = s.w.g := by
  cases op with
  | run h cfg => exact absurd hop id
  | kalign a c => exact absurd hop id
  | read files =>
    simp only [step]
    have hg := readFiles_g P s.next files none s.w
    rcases hr : readFiles P s.next files none s.w with ⟨oc, w⟩
    rw [hr] at hg
    cases oc with
    | failed => exact hg
    | done acc => cases acc <;> exact hg
  | write h fmt =>
    simp only [step]
    cases s.lookup h with
    | none => rfl
    | some o => cases o <;> rfl
  | compare h1 h2 =>
    simp only [step]
    cases s.lookup h1 with
    | none => rfl
    | some o1 =>
      cases o1 with
      | rows r => rfl
      | msa r =>
        cases s.lookup h2 with
        | none => rfl
        | some o2 =>
          cases o2 with
          | rows r => rfl
          | msa t =>
            simp only
            by_cases e : h1 = h2
            · simp only [e, if_true]; cases (P.compareSelf r).1 <;> rfl
            · simp only [e, if_false]; cases (P.compare r t).1 <;> rfl
  | free h =>
    simp only [step]
    cases s.lookup h <;> rfl

/-! ## (2) history independence -/

/-- **one call after any history**: its output, the objects it leaves under its argument handles, and
the object it creates are those of the same call in a fresh process (any initial globals `g0'`, empty
ledger) holding only the same argument objects. -/
theorem history_independent (g0 g0' : Globals) (ops : List (Op P)) (op : Op P) :
    let s := after P (State.init P g0) ops
    let s' := freshWith P g0' s op.handles
    (step P s op).1 = (step P s' op).1 ∧
    (∀ h ∈ op.handles, (step P s op).2.lookup h = (step P s' op).2.lookup h) ∧
    (∀ h, (step P s op).1.created = some h → (step P s op).2.lookup h = (step P s' op).2.lookup h) := by
  intro s s'
  apply step_independent P s s' op
  · intro h hh
    exact (lookup_filter_contains P s.heap op.handles h hh).symm
  · rfl

/-- the argument objects of the fresh process are exactly those of the history -/
theorem freshWith_args (g0' : Globals) (s : State P) (hs : List Nat) (h : Nat) (hh : h ∈ hs) :
    (freshWith P g0' s hs).lookup h = s.lookup h :=
  lookup_filter_contains P s.heap hs h hh

theorem run_nth (s : State P) (ops : List (Op P)) (k : Nat) (op : Op P) (hk : ops[k]? = some op) :
    (run P s ops).1[k]? = some (step P (after P s (ops.take k)) op).1 := by
  induction ops generalizing s k with
  | nil => simp at hk
  | cons o ops ih =>
    cases k with
    | zero =>
      simp only [List.getElem?_cons_zero, Option.some.injEq] at hk
      subst hk
      simp [run, after]
    | succ k =>
      simp only [List.getElem?_cons_succ] at hk
      have := ih (step P s o).2 k hk
      simp only [run, List.getElem?_cons_succ, List.take_succ_cons]
      rw [this]
      rfl

/-- **the k-th output of a history** is the output of the k-th call issued in a fresh process on the
objects its arguments name at that point (induction over the op list) -/
theorem history_independent_nth (g0 g0' : Globals) (ops : List (Op P)) (k : Nat) (op : Op P)
    (hk : ops[k]? = some op) :
    (run P (State.init P g0) ops).1[k]? =
      some (step P (freshWith P g0' (after P (State.init P g0) (ops.take k)) op.handles) op).1 := by
  rw [run_nth P _ ops k op hk]
  exact congrArg some (history_independent P g0 g0' (ops.take k) op).1

/-- the initial globals of the process are irrelevant to every output -/
theorem outputs_ignore_initial_globals (g0 g0' : Globals) (ops : List (Op P)) :
    (run P (State.init P g0) ops).1 = (run P (State.init P g0') ops).1 :=
  run_sim P _ _ ops rfl rfl

/-! ## (3) the allocation ledger -/

/-- the operations that free every live handle -/
def freeAll (hs : List Nat) : List (Op P) := hs.map .free

theorem lookup_isSome_of_mem (heap : List (Nat × Obj P)) (h : Nat) (hm : h ∈ heap.map (·.1)) :
    ∃ o, heap.lookup h = some o := by
  cases hl : heap.lookup h with
  | some o => exact ⟨o, rfl⟩
  | none =>
    exfalso
    induction heap with
    | nil => simp at hm
    | cons e t ih =>
      obtain ⟨a, b⟩ := e
      simp only [List.lookup_cons] at hl
      cases hha : (h == a)
      · rw [hha] at hl
        simp only [List.map_cons, List.mem_cons] at hm
        rcases hm with e' | e'
        · subst e'; simp at hha
        · exact ih e' hl
      · rw [hha] at hl; cases hl

theorem freeAll_empties (s : State P) (hs : List Nat) (hh : s.handles = hs) (hnd : hs.Nodup) :
    (after P s (freeAll P hs)).heap = [] := by
  induction hs generalizing s with
  | nil =>
    simp only [freeAll, List.map_nil, after_nil]
    exact List.map_eq_nil_iff.1 hh
  | cons h t ih =>
    simp only [freeAll, List.map_cons, after_cons]
    obtain ⟨o, ho⟩ := lookup_isSome_of_mem P s.heap h (by rw [show s.heap.map (·.1) = s.handles from rfl, hh]; simp)
    have hstep : (step P s (.free h)).2.handles = t := by
      simp only [step, State.lookup, ho, State.handles, handles_dropObj]
      rw [show s.heap.map (·.1) = s.handles from rfl, hh]
      have hnt : h ∉ t := (List.nodup_cons.1 hnd).1
      simp only [List.filter_cons, ne_eq, not_true_eq_false, decide_false, Bool.false_eq_true, if_false]
      apply List.filter_eq_self.2
      intro a ha
      simpa using (fun e : a = h => hnt (e ▸ ha))
    exact ih _ hstep (List.nodup_cons.1 hnd).2

/-- after any history (failing calls included) the ledger holds exactly the objects of the live handles … -/
theorem ledger_invariant (g0 : Globals) (ops : List (Op P)) :
    let s := after P (State.init P g0) ops
    s.w.ledger = s.handles.map Blk.obj ∧ s.handles.Nodup :=
  let hi := after_inv P _ ops (inv_init P g0)
  ⟨hi.ledger, hi.nodup⟩

/-- … and once all of them are freed nothing the library allocated remains allocated -/
theorem ledger_balanced (g0 : Globals) (ops : List (Op P)) :
    let s := after P (State.init P g0) ops
    (after P s (freeAll P s.handles)).w.ledger = [] ∧ (after P s (freeAll P s.handles)).heap = [] := by
  intro s
  have hi : Inv P s := after_inv P _ ops (inv_init P g0)
  have hi' : Inv P (after P s (freeAll P s.handles)) := after_inv P s _ hi
  have he := freeAll_empties P s s.handles rfl hi.nodup
  refine ⟨?_, he⟩
  have hnil : State.handles (after P s (freeAll P s.handles)) = [] := by
    show List.map _ (after P s (freeAll P s.handles)).heap = []
    rw [he]; rfl
  rw [hi'.ledger, hnil]; rfl

/-- variant: however the caller frees them — if no handle is live the ledger is empty -/
theorem ledger_empty_of_no_handles (g0 : Globals) (ops : List (Op P))
    (hnone : (after P (State.init P g0) ops).heap = []) :
    (after P (State.init P g0) ops).w.ledger = [] := by
  have hi := after_inv P _ ops (inv_init P g0)
  have hnil : State.handles (after P (State.init P g0) ops) = [] := by
    show List.map _ (after P (State.init P g0) ops).heap = []
    rw [hnone]; rfl
  rw [hi.ledger, hnil]; rfl

/-- one `kalign_read_input` call, whatever fails, leaves the ledger as the caller's `*msa` dictates -/
theorem read_call_balanced (h : Nat) (L : List Blk) (f : P.File) (cur : Option P.Msa) (w : World)
    (hw : w.ledger = baseLedger P h L cur) :
    (readInput P h f cur w).2.ledger = baseLedger P h L (readInput P h f cur w).1.2 :=
  readInput_ledger P h L f cur w hw

/-- an input from which nothing is read returns OK and leaves `*msa` untouched (7d4bd68) -/
theorem read_nothing_keeps_msa (h : Nat) (f : P.File) (cur : Option P.Msa) (w : World)
    (hf : P.parseFile f = .nothing) : (readInput P h f cur w).1 = (true, cur) := by
  simp [readInput, hf]

/-! ### historical counterexample (pre-repair code, not part of the model) -/

/-- `kalign_read_input` as it was before /repo commit 4c3a0a7: identical, except that on a failing
`fopen` the `in_buffer` allocated inside `read_file_stdin` was neither stored nor freed -/
def readInputPre4c3a0a7 (h : Nat) (f : P.File) (cur : Option P.Msa) (w : World) : (Bool × Option P.Msa) × World :=
  match P.parseFile f with
  | .openFail => ((false, cur), ((w.alloc (.tmp "timer")).alloc (.tmp "in_buffer")).free (.tmp "timer"))
  | _ => readInput P h f cur w

/-- before the repair such a call left one block behind (contrast `read_call_balanced`) -/
theorem read_call_leaked_before_4c3a0a7 (h : Nat) (L : List Blk) (f : P.File) (cur : Option P.Msa) (w : World)
    (hf : P.parseFile f = .openFail) (hw : w.ledger = baseLedger P h L cur) :
    (readInputPre4c3a0a7 P h f cur w).2.ledger =
      Blk.tmp "in_buffer" :: baseLedger P h L (readInputPre4c3a0a7 P h f cur w).1.2 := by
  simp [readInputPre4c3a0a7, hf, hw]

/-! ## non-vacuity: a concrete instance and a concrete history -/

section Examples

/-- what an input file can be in the toy instance -/
inductive ToyFile where
  /-- a well-formed file with these sequences (`[]`: a recognised format without any sequence) -/
  | ok (xs : List Nat)
  | empty
  /-- the format reader fails -/
  | garbled
  /-- the reader succeeds, a detector fails -/
  | badLetters
  | missing
  /-- exists, cannot be opened -/
  | unreadable

/-- A toy instance in which every computation *does* look at the globals it is handed: the distance
"matrix" is the team size, or 999 when the mask is not initialised; an alignment appends
`[tasks, ap, threads]` to the sequence list.  Two inputs can be merged when their first elements have
the same parity ("alphabet"). -/
@[reducible] def toy : Params where
  Msa := List Nat
  File := ToyFile
  Cfg := Nat × Nat
  Fmt := Nat
  Bytes := List Nat
  Score := Nat
  Arr := List Nat
  Rows := List Nat
  DM := Nat
  Tasks := Nat
  Ap := Nat
  parseFile f := match f with
    | .ok xs => .seqs xs
    | .empty => .nothing
    | .garbled => .readerFail
    | .badLetters => .detectFail
    | .missing => .missing
    | .unreadable => .openFail
  mergeMsa a b := if a.headD 0 % 2 = b.headD 0 % 2 then (a ++ b, true) else (a, false)
  nonEmpty m := decide (1 ≤ m.length)
  threads c := max c.1 1
  prepare m := (m, decide (m.length < 100))
  distances _ mask th := if mask then th else 999
  kmeans _ dm mask th := if mask then 10 * dm + th else 888
  fullAlphabet m := m
  paramInit _ c := if c.2 = 0 then none else some c.2
  alignAll m t ap th := m ++ [t, ap, th]
  render m fmt := (if fmt < 3 then some (fmt :: m) else none, m)
  compare a b := (if a.length = b.length then some (a.length + b.length) else none, a, b)
  compareSelf a := (some 100, a)
  arrToMsa a := if a.length < 2 then none else some a
  msaToArr m := some m.reverse

def g0 : Globals := ⟨16, false⟩

/-- read two files into one msa; align with 4 threads; write; array API with 2 threads; realign the
first object with 1 thread; a failing run (bad type); a failing write; compare; free both -/
def hist : List (Op toy) :=
  [ .read ([.ok [1, 2], .empty, .ok [3]] : List ToyFile),
    .run 0 ((4, 7) : Nat × Nat),
    .write 0 (1 : Nat),
    .kalign ([5, 6] : List Nat) ((2, 9) : Nat × Nat),
    .run 0 ((1, 7) : Nat × Nat),
    .run 0 ((3, 0) : Nat × Nat),
    .write 0 (5 : Nat),
    .compare 0 0,
    .free 0,
    .free 1 ]

/-- the outputs: the thread count of each call shows in that call's output and in no later one -/
example : (run toy (State.init toy g0) hist).1 =
    [ .handle 0, .ok, .bytes ([1, 1, 2, 3, 44, 7, 4] : List Nat), .aligned 1 ([2, 9, 22, 6, 5] : List Nat), .ok, .fail, .fail,
      .score (100 : Nat), .ok, .ok ] := rfl

/-- the same outputs from other initial globals -/
example : (run toy (State.init toy ⟨1, true⟩) hist).1 = (run toy (State.init toy g0) hist).1 :=
  outputs_ignore_initial_globals toy _ _ hist

/-- the fifth call (`run 0 (1,7)` after four others) in a fresh process holding only object 0 -/
example :
    (step toy (freshWith toy ⟨64, false⟩ (after toy (State.init toy g0) (hist.take 4)) [0]) (.run 0 ((1, 7) : Nat × Nat))).1 = .ok ∧
    (step toy (freshWith toy ⟨64, false⟩ (after toy (State.init toy g0) (hist.take 4)) [0]) (.run 0 ((1, 7) : Nat × Nat))).2.lookup 0
      = (after toy (State.init toy g0) (hist.take 5)).lookup 0 := ⟨rfl, rfl⟩

/-- ledger while two objects are live, and at the end -/
example : (after toy (State.init toy g0) (hist.take 8)).w.ledger = [.obj 1, .obj 0] := by decide
example : (after toy (State.init toy g0) hist).w.ledger = [] := by decide
example : (after toy (State.init toy g0) hist).w.g = ⟨3, true⟩ := by decide

/-- every failure of `read`: garbled / missing / unreadable / sequence-less first file; garbled / missing /
unreadable / bad-letters / other-alphabet later file; nothing but empty files — the outputs … -/
def failingReads : List (Op toy) :=
  [ .read ([.garbled] : List ToyFile),
    .read ([.missing] : List ToyFile),
    .read ([.badLetters] : List ToyFile),
    .read ([.ok []] : List ToyFile),
    .read ([.unreadable] : List ToyFile),
    .read ([.ok [1, 2], .unreadable, .ok [3]] : List ToyFile),
    .read ([.ok [1, 2], .garbled] : List ToyFile),
    .read ([.ok [1, 2], .missing, .ok [3]] : List ToyFile),
    .read ([.ok [1, 2], .badLetters] : List ToyFile),
    .read ([.ok [1, 2], .ok [4]] : List ToyFile),
    .read ([.empty, .empty] : List ToyFile),
    .read ([.ok [1], .empty, .ok [3]] : List ToyFile) ]

example : (run toy (State.init toy g0) failingReads).1 =
    [.fail, .fail, .fail, .fail, .fail, .fail, .fail, .fail, .fail, .fail, .noInput, .handle 0] := rfl

/-- … and nothing but the one object that was handed out remains allocated -/
example : (after toy (State.init toy g0) failingReads).w.ledger = [.obj 0] := by decide

/-- `ledger_balanced` on this history, and the pre-repair call on the toy's unreadable file -/
example : (after toy (after toy (State.init toy g0) failingReads)
    (freeAll toy (after toy (State.init toy g0) failingReads).handles)).w.ledger = [] :=
  (ledger_balanced toy g0 failingReads).1

example : (readInputPre4c3a0a7 toy 0 ToyFile.unreadable none ⟨g0, []⟩).2.ledger = [.tmp "in_buffer"] := by decide
example : (readInput toy 0 ToyFile.unreadable none ⟨g0, []⟩).2.ledger = [] := by decide

end Examples

end Kalign.C16
