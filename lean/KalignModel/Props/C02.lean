import KalignModel.Lemmas.SchedKalign
import KalignModel.Props.C02Pragmas
/-!
# C02 — same alignment for every thread count and schedule

"For a given input and parameter set the alignment is byte-identical whatever number of threads is
requested, however the OpenMP runtime schedules the tasks, however often the run is repeated, and also
when the library is built without OpenMP. No merge of two groups starts before both groups are complete,
and the forward and backward halves of a dynamic-programming step are both finished before they are
combined."

What is proved here (level **S**: about the fork-join model of the pragma structure):

* generic (Lemmas/Sched.lean): `Sched.determinacy`, `Sched.order`, `Sched.indep_of_disjoint`;
* for each of the four parallel regions: footprint safety (`tree_prog_safe`, `hirsch_prog_safe`,
  `kmeans_round_safe`, `dist_prog_safe`), hence every schedule = the serial elision
  (`tree_threads_irrelevant`, …) and the ordering claims (`merge_after_children`,
  `meetup_after_halves`);
* obligations re-checked against the C text on every run (`skeleton_matches`, `thread_use_sites`,
  `writable_globals`) and the *computed* tie pragma list ↦ `Prog` shape (`*_shape`, `*_is_skeleton_image`).

What is trusted / checked elsewhere: that the OpenMP runtime implements task/taskwait/barrier, that
data-race-free atoms may be regarded as atomic, and that the declared footprints are the real ones
(trace validation + TSan build, DESIGN §4 C02).  The number of threads does not occur in the model at
all: a team of `n` threads can only realise some of the linearisations quantified over here.
-/
namespace Kalign.C02
open Kalign Kalign.Sched

/-! ## stage 6: the merge tree -/

/-- concurrent merges lie in disjoint subtrees ⇒ disjoint leaf sets and node ids ⇒ disjoint footprints -/
theorem tree_prog_safe : ∀ T : LTree, T.ids.Nodup → Safe mergeFp (treeProg T) := treeProg_safe

/-- the labelling kalign computes (`label_internal(root, numseq)`) has pairwise distinct ids whenever the
leaves are distinct input indices `< numseq` -/
theorem label_distinct (T : Tree) (numseq : Nat) (hnd : T.leaves.Nodup) (hlt : ∀ i ∈ T.leaves, i < numseq) :
    (label T numseq).ids.Nodup ∧ (label T numseq).erase = T :=
  ⟨labelFrom_nodup T numseq hnd hlt, (labelFrom_spec T numseq).2.2.1⟩

theorem tree_prog_safe_of_label (T : Tree) (numseq : Nat) (hnd : T.leaves.Nodup)
    (hlt : ∀ i ∈ T.leaves, i < numseq) : Safe mergeFp (treeProg (label T numseq)) :=
  tree_prog_safe _ (label_distinct T numseq hnd hlt).1

/-- every schedule of the merge tasks (any thread count, any runtime decisions) computes the state that
the serial post-order execution — the build without OpenMP — computes.  `act` is *any* action that
respects the declared footprints. -/
theorem tree_threads_irrelevant {Val : Type} (act : MergeAtom → (KLoc → Val) → (KLoc → Val))
    (hwf : (Sem.mk mergeFp act).WellFormed) (T : LTree) (hnd : T.ids.Nodup)
    (sched : List MergeAtom) (hs : Lin (treeProg T) sched) (s : KLoc → Val) :
    exec act sched s = exec act T.serialMerges s := by
  rw [← atoms_treeProg]
  exact determinacy (Sem.mk mergeFp act) hwf (tree_prog_safe T hnd) hs s

/-- two runs (repetition, different thread counts) agree -/
theorem tree_runs_agree {Val : Type} (act : MergeAtom → (KLoc → Val) → (KLoc → Val))
    (hwf : (Sem.mk mergeFp act).WellFormed) (T : LTree) (hnd : T.ids.Nodup)
    (sched sched' : List MergeAtom) (hs : Lin (treeProg T) sched) (hs' : Lin (treeProg T) sched')
    (s : KLoc → Val) : exec act sched s = exec act sched' s :=
  schedules_agree (Sem.mk mergeFp act) hwf (tree_prog_safe T hnd) hs hs' s

/-- the serial post-order is itself one of the schedules (so the statement above is not about an
unreachable reference) and in every schedule each merge runs exactly once -/
theorem tree_serial_is_schedule (T : LTree) : Lin (treeProg T) T.serialMerges := by
  rw [← atoms_treeProg]; exact Lin.serial _

theorem tree_each_merge_once (T : LTree) (hnd : T.ids.Nodup) (sched : List MergeAtom)
    (hs : Lin (treeProg T) sched) : sched.Perm T.serialMerges ∧ sched.Nodup := by
  have hp : sched.Perm T.serialMerges := by rw [← atoms_treeProg]; exact hs.perm
  exact ⟨hp, hp.nodup_iff.2 (serialMerges_nodup T hnd)⟩

/-- **no merge of two groups starts before both groups are complete**: in every schedule, every merge
inside the subtrees of `a` and `b` occurs before `merge(c)` -/
theorem merge_after_subtrees (T : LTree) {c : Nat} {l r : LTree} (hsub : LTree.Sub (.node c l r) T)
    (sched : List MergeAtom) (hs : Lin (treeProg T) sched) (m : MergeAtom)
    (hm : m ∈ l.serialMerges ∨ m ∈ r.serialMerges) : Before sched m (LTree.mergeAtom c l r) := by
  have hsp : Prog.Sub (.seq (.par (treeProg l) (treeProg r)) (.atom (LTree.mergeAtom c l r))) (treeProg T) :=
    treeProg_sub hsub
  refine order hsp hs ?_ (by simp [Prog.atoms])
  simp only [Prog.atoms, List.mem_append, atoms_treeProg]
  exact hm

/-- in every linearisation `merge(c)` comes after `merge(a)` and `merge(b)` when those are internal -/
theorem merge_after_children (T : LTree) {c : Nat} {l r : LTree} (hsub : LTree.Sub (.node c l r) T)
    (sched : List MergeAtom) (hs : Lin (treeProg T) sched) :
    (∀ a la ra, l = .node a la ra → Before sched (LTree.mergeAtom a la ra) (LTree.mergeAtom c l r)) ∧
    (∀ b lb rb, r = .node b lb rb → Before sched (LTree.mergeAtom b lb rb) (LTree.mergeAtom c l r)) := by
  constructor
  · intro a la ra e
    apply merge_after_subtrees T hsub sched hs
    left; subst e; simp [LTree.serialMerges]
  · intro b lb rb e
    apply merge_after_subtrees T hsub sched hs
    right; subst e; simp [LTree.serialMerges]

/-- the same as positions in the schedule (ids distinct ⇒ each merge has one position) -/
theorem merge_after_children_pos (T : LTree) (hnd : T.ids.Nodup) {c : Nat} {l r : LTree}
    (hsub : LTree.Sub (.node c l r) T) (sched : List MergeAtom) (hs : Lin (treeProg T) sched)
    (m : MergeAtom) (hm : m ∈ l.serialMerges ∨ m ∈ r.serialMerges) :
    sched.idxOf m < sched.idxOf (LTree.mergeAtom c l r) :=
  before_idxOf (tree_each_merge_once T hnd sched hs).2 (merge_after_subtrees T hsub sched hs m hm)

/-! ## stage 6 inner: Hirschberg step -/

theorem hirsch_prog_safe : Safe hirschFp hirschProg := hirsch_safe

/-- forward and backward are both finished before they are combined -/
theorem meetup_after_halves (sched : List HAtom) (hs : Lin hirschProg sched) :
    Before sched .fwd .meetup ∧ Before sched .bwd .meetup :=
  ⟨order (.refl _) hs (by simp [Prog.atoms]) (by simp [Prog.atoms]),
   order (.refl _) hs (by simp [Prog.atoms]) (by simp [Prog.atoms])⟩

/-- there are exactly two schedules of a step, and both end with the meetup -/
theorem hirsch_schedules (sched : List HAtom) (hs : Lin hirschProg sched) :
    sched = [.fwd, .bwd, .meetup] ∨ sched = [.bwd, .fwd, .meetup] := by
  cases hs with
  | seq h1 h2 =>
    cases h2
    cases h1 with
    | par ha hb hsh =>
      cases ha; cases hb
      cases hsh with
      | left h => cases h with
        | right h' => cases h'; exact Or.inl rfl
      | right h => cases h with
        | left h' => cases h'; exact Or.inr rfl

theorem hirsch_threads_irrelevant {Val : Type} (act : HAtom → (HLoc → Val) → (HLoc → Val))
    (hwf : (Sem.mk hirschFp act).WellFormed) (sched : List HAtom) (hs : Lin hirschProg sched)
    (s : HLoc → Val) : exec act sched s = act .meetup (act .bwd (act .fwd s)) :=
  determinacy (Sem.mk hirschFp act) hwf hirsch_prog_safe hs s

/-- the whole recursion of `aln_runner`: a `par` only inside each step, the sub-rectangles sequential -/
theorem hirsch_rec_safe (t : HTree) : Safe (fun a : List Bool × HAtom => hirschFp a.2) (hirschRecProg t []) :=
  hirschRec_safe t []

/-! ## stage 4: k-means round and distance matrix -/

theorem kmeans_round_safe : Safe kmFp kmeansRoundProg := kmeansRound_safe

theorem kmeans_round_threads_irrelevant {Val : Type} (act : KmAtom → (KmLoc → Val) → (KmLoc → Val))
    (hwf : (Sem.mk kmFp act).WellFormed) (sched : List KmAtom) (hs : Lin kmeansRoundProg sched)
    (s : KmLoc → Val) :
    exec act sched s = act .reduce (act (.split 3) (act (.split 2) (act (.split 1) (act (.split 0) s)))) :=
  determinacy (Sem.mk kmFp act) hwf kmeans_round_safe hs s

/-- the reduction over `res[0..3]` is a single sequential atom after the `taskwait` -/
theorem reduce_after_splits (sched : List KmAtom) (hs : Lin kmeansRoundProg sched) (k : Nat) (hk : k < 4) :
    Before sched (.split k) .reduce := by
  refine order (.refl _) hs ?_ (by simp [Prog.atoms])
  have : k = 0 ∨ k = 1 ∨ k = 2 ∨ k = 3 := by omega
  rcases this with e | e | e | e <;> subst e <;> simp [parAll, Prog.atoms]

theorem dist_prog_safe (n m : Nat) : Safe dFp (distProg n m) := dist_safe n m

theorem dist_threads_irrelevant {Val : Type} (act : DAtom → (DLoc → Val) → (DLoc → Val))
    (hwf : (Sem.mk dFp act).WellFormed) (n m : Nat) (sched : List DAtom)
    (hs : Lin (dEstimationProg n m) sched) (s : DLoc → Val) :
    exec act sched s = exec act (dEstimationProg n m).atoms s :=
  determinacy (Sem.mk dFp act) hwf (dEstimation_safe n m) hs s

/-- every cell computation comes after the mask initialisation of the same `d_estimation` call -/
theorem mask_set_before_cells (n m : Nat) (sched : List DAtom) (hs : Lin (dEstimationProg n m) sched)
    (a : DAtom) (ha : a ∈ (distProg n m).atoms) : Before sched .setMask a :=
  order (.refl _) hs (by simp [Prog.atoms]) ha

/-! ## stage 4: the recursion of `bisecting_kmeans` and the write/write race on `BROADCAST_MASK`

`bisecting_kmeans` calls `d_estimation(…, 1)` in every small call, and `d_estimation` starts with
`set_broadcast_mask()`.  Two small sibling calls are concurrent tasks, so the file-scope array
`BROADCAST_MASK` is written concurrently: the footprint discipline of `determinacy` is **violated**
(`kmeans_rec_not_footprint_safe`).  The result is nevertheless schedule-independent because every writer
stores the same constants and nothing that is computed depends on the previous content
(`kmeans_rec_threads_irrelevant`, via `indep_withStore`).  In C11 terms this remains a data race
(undefined behaviour); in practice the stores are idempotent and, in the current tree, the only reader
(`bpm_256`) is not called at all (`BPM` is `bpm_block`, bpm.h:41).  Note for the supporting TSan build:
the stores are 32-byte AVX stores, which ThreadSanitizer does not instrument — it cannot see this race. -/

theorem kmeans_rec_safe_without_mask (T : KTree) (hnd : T.ids.Nodup) : Safe krFp0 (kmeansRecProg T) :=
  kmeansRec_safe0 T hnd

/-- with the honest footprints (mask in the write set of every small call) two small siblings conflict -/
theorem kmeans_rec_not_footprint_safe : ¬ Safe krFp (kmeansRecProg (.big 2 (.small 0) (.small 1))) := by
  intro h
  have h' := h.2.1.2.2 (.upgma 0) (by simp [kmeansRecProg, Prog.atoms]) (.upgma 1) (by simp [kmeansRecProg, Prog.atoms])
  exact (h' .mask).1 (by simp [krFp, krWr]) (Or.inr (by simp [krFp, krWr]))

/-- every schedule of the recursion computes what the serial elision computes, for every action `act0`
that respects the mask-free footprints, extended by "small calls store the constant `K` to the mask" -/
theorem kmeans_rec_threads_irrelevant {Val : Type} (act0 : KRAtom → (KRLoc → Val) → (KRLoc → Val))
    (hwf : (Sem.mk krFp0 act0).WellFormed) (K : Val) (T : KTree) (hnd : T.ids.Nodup)
    (sched : List KRAtom) (hs : Lin (kmeansRecProg T) sched) (s : KRLoc → Val) :
    exec (withStore act0 KRAtom.setsMask .mask K) sched s =
      exec (withStore act0 KRAtom.setsMask .mask K) (kmeansRecProg T).atoms s :=
  determinacyI _ (safeI_withStore (Sem.mk krFp0 act0) hwf KRAtom.setsMask .mask K kr_no_mask
    (kmeans_rec_safe_without_mask T hnd)) hs s

/-- the action above really writes the mask in every small call (so the conflict is not modelled away) -/
example {Val : Type} (act0 : KRAtom → (KRLoc → Val) → (KRLoc → Val)) (K : Val) (i : Nat) (s : KRLoc → Val) :
    withStore act0 KRAtom.setsMask .mask K (.upgma i) s .mask = K := by
  simp [withStore, KRAtom.setsMask, upd]

/-! ## obligations re-checked against the source text on every run -/

open Kalign.Gen in
/-- the pragma structure the proofs above are about.  `Gen.ompSkeleton` is regenerated from
/repo/lib/src on every run; deleting a `taskwait`, changing a `shared`/`firstprivate`/`if` clause,
adding a `reduction`, a new task or a new parallel region makes `skeleton_matches` fail. -/
def expectedSkeleton : List (String × List Dir) := [
  ("create_msa_tree", [.par, .singleNowait]),
  ("recursive_aln", [.task "recursive_aln" "" "msa,t,ap,active" "a", .task "recursive_aln" "" "msa,t,ap,active" "b", .taskwait]),
  ("aln_runner", [.par, .singleNowait,
    .task "aln_seqseq_foward" "m->run_parallel" "m" "", .task "aln_seqseq_backward" "m->run_parallel" "m" "", .taskwait,
    .task "aln_profileprofile_foward" "m->run_parallel" "m" "", .task "aln_profileprofile_backward" "m->run_parallel" "m" "", .taskwait,
    .task "aln_seqprofile_foward" "m->run_parallel" "m" "", .task "aln_seqprofile_backward" "m->run_parallel" "m" "", .taskwait]),
  ("build_tree_kmeans", [.par, .singleNowait]),
  ("bisecting_kmeans", [
    .task "split2" "" "dm,samples,num_anchors,num_samples,i,step,res" "",
    .task "split2" "" "dm,samples,num_anchors,num_samples,i,step,res" "",
    .task "split2" "" "dm,samples,num_anchors,num_samples,i,step,res" "",
    .task "split2" "" "dm,samples,num_anchors,num_samples,i,step,res" "", .taskwait,
    .task "bisecting_kmeans" "" "msa,n,dm" "", .task "bisecting_kmeans" "" "msa,n,dm,num_anchors" "", .taskwait]),
  ("d_estimation", [.pfor "shared(dm, s) private(i, j) collapse(2) schedule(static)"])
]

def expectedThreadUses : List String := [
  "aln_controller.c:aln_runner:run_parallel",
  "aln_mem.c:alloc_aln_mem:run_parallel",
  "aln_param.c:aln_param_init:n_threads+nthreads",
  "aln_run.c:create_msa_tree:nthreads+run_parallel",
  "aln_run.c:recursive_aln:run_parallel",
  "aln_wrap.c:kalign:n_threads",
  "aln_wrap.c:kalign_run:n_threads+omp_set_num_threads"]

theorem skeleton_matches : Gen.ompSkeleton = expectedSkeleton := by decide

/-- the thread count is mentioned only to (i) set the team size, (ii) derive `run_parallel`, which only
feeds `if()` clauses of tasks (deferred vs. undeferred execution — both are linearisations).  No
`omp_get_thread_num`, no per-thread buffers, no thread-count-dependent chunking of data. -/
theorem thread_use_sites : Gen.threadUses = expectedThreadUses := by decide

/-- the only writable file-scope object of the library -/
theorem writable_globals : Gen.writableGlobals = ["bpm.c:BROADCAST_MASK"] := by decide

/-! ## the tie pragma text ↦ `Prog`, computed -/

theorem recursive_aln_shape :
    progOfSkeleton Gen.ompSkeleton "recursive_aln" =
      .seq (.par (.atom (.task "recursive_aln" 0)) (.atom (.task "recursive_aln" 1))) (.atom (.after 0)) := by
  decide

/-- what fills the holes of `recursive_aln(c)`: the recursive calls on the children (no task and no
call when the child is a leaf: `skip`) and `do_align(c)` after the `taskwait` -/
def treeSubst (c : Nat) (l r : LTree) : Slot → Prog MergeAtom
  | .task _ 0 => treeProg l
  | .task _ 1 => treeProg r
  | .after 0 => .atom (LTree.mergeAtom c l r)
  | _ => .skip

theorem treeProg_is_skeleton_image (c : Nat) (l r : LTree) :
    treeProg (.node c l r) = (progOfSkeleton Gen.ompSkeleton "recursive_aln").bind (treeSubst c l r) := by
  rw [recursive_aln_shape]; rfl

/-- `create_msa_tree` and `build_tree_kmeans` only open the region (`parallel` + `single nowait`): one
thread runs the root call, the others serve tasks -/
theorem region_openers :
    progOfSkeleton Gen.ompSkeleton "create_msa_tree" = .skip ∧
    progOfSkeleton Gen.ompSkeleton "build_tree_kmeans" = .skip := by decide

def hirschSubst : Slot → Prog HAtom
  | .task callee _ =>
    if callee = "aln_seqseq_foward" ∨ callee = "aln_profileprofile_foward" ∨ callee = "aln_seqprofile_foward" then .atom .fwd
    else if callee = "aln_seqseq_backward" ∨ callee = "aln_profileprofile_backward" ∨ callee = "aln_seqprofile_backward" then .atom .bwd
    else .skip
  | .after _ => .atom .meetup
  | .loop _ => .skip

/-- `aln_runner` has three `taskwait`-terminated segments (the seq-seq, profile-profile and seq-profile
branches of one `if / else if / else`; a call executes exactly one of them) and each of them is
`hirschProg` -/
theorem hirschProg_is_skeleton_image :
    (segsOfSkeleton Gen.ompSkeleton "aln_runner").map (·.bind hirschSubst) = [hirschProg, hirschProg, hirschProg] := by
  decide

def kmSubst : Slot → Prog KmAtom
  | .task callee n => if callee = "split2" then .atom (.split n) else .skip
  | .after 0 => .atom .reduce
  | _ => .skip

/-- first segment of `bisecting_kmeans` = one k-means round; second segment = the two recursive calls,
joined before `*ret_n = n` -/
theorem kmeansRoundProg_is_skeleton_image :
    (segsOfSkeleton Gen.ompSkeleton "bisecting_kmeans").map (·.bind kmSubst) =
      [kmeansRoundProg, .seq (.par .skip .skip) .skip] := by
  decide

theorem bisecting_kmeans_recursion_shape :
    (segsOfSkeleton Gen.ompSkeleton "bisecting_kmeans")[1]? =
      some (.seq (.par (.atom (.task "bisecting_kmeans" 4)) (.atom (.task "bisecting_kmeans" 5))) (.atom (.after 1))) := by
  decide

def kmRecSubst (i : Nat) (l r : KTree) : Slot → Prog KRAtom
  | .task _ 4 => kmeansRecProg l
  | .task _ 5 => kmeansRecProg r
  | .after 1 => .atom (.join i l.id r.id)
  | _ => .skip

/-- a big call = its (sequential succession of) k-means rounds, collapsed into `rounds`, followed by the
image of the second segment of the skeleton -/
theorem kmeansRecProg_is_skeleton_image (i : Nat) (l r : KTree) :
    (segsOfSkeleton Gen.ompSkeleton "bisecting_kmeans")[1]?.map (fun seg =>
        Prog.seq (.atom (KRAtom.rounds i l.id r.id)) (seg.bind (kmRecSubst i l r)))
      = some (kmeansRecProg (.big i l r)) := by
  rw [bisecting_kmeans_recursion_shape]; rfl

/-- `d_estimation` is a single work-sharing loop, without `reduction`, `nowait` or `ordered` -/
theorem d_estimation_shape :
    progOfSkeleton Gen.ompSkeleton "d_estimation" = .atom (.loop 0) ∧
    Gen.ompSkeleton.lookup "d_estimation" = some [.pfor "shared(dm, s) private(i, j) collapse(2) schedule(static)"] := by
  decide

theorem distProg_is_skeleton_image (n m : Nat) :
    (progOfSkeleton Gen.ompSkeleton "d_estimation").bind (fun _ => distProg n m) = distProg n m := by
  rw [d_estimation_shape.1]; rfl

/-- parallel constructs occur in these six functions only, all of them below `kalign_run` -/
theorem parallel_functions :
    Gen.ompSkeleton.map (·.1) =
      ["create_msa_tree", "recursive_aln", "aln_runner", "build_tree_kmeans", "bisecting_kmeans", "d_estimation"] := by
  decide

/-! ## non-vacuity -/

section Examples

/-- 3 leaves: `((0,1),2)` with `label_internal` numbering from 3 -/
def T3 : LTree := label (.node (.node (.leaf 0) (.leaf 1)) (.leaf 2)) 3
/-- 5 leaves: `((0,1),((2,3),4))` numbered from 5 -/
def T5 : LTree := label (.node (.node (.leaf 0) (.leaf 1)) (.node (.node (.leaf 2) (.leaf 3)) (.leaf 4))) 5

example : T3 = .node 4 (.node 3 (.leaf 0) (.leaf 1)) (.leaf 2) := by decide
example : T5 = .node 8 (.node 5 (.leaf 0) (.leaf 1)) (.node 7 (.node 6 (.leaf 2) (.leaf 3)) (.leaf 4)) := by decide
example : T3.ids.Nodup := by decide
example : T5.ids.Nodup := by decide

def m3 : MergeAtom := ⟨3, 0, 1, [0, 1]⟩
def m4 : MergeAtom := ⟨4, 3, 2, [0, 1, 2]⟩
def m5 : MergeAtom := ⟨5, 0, 1, [0, 1]⟩
def m6 : MergeAtom := ⟨6, 2, 3, [2, 3]⟩
def m7 : MergeAtom := ⟨7, 6, 4, [2, 3, 4]⟩
def m8 : MergeAtom := ⟨8, 5, 7, [0, 1, 2, 3, 4]⟩

example : T3.serialMerges = [m3, m4] := by decide
example : T5.serialMerges = [m5, m6, m7, m8] := by decide

/-- a caterpillar has a single schedule -/
example (sched : List MergeAtom) (hs : Lin (treeProg T3) sched) : sched = [m3, m4] := by
  have hp := (tree_each_merge_once T3 (by decide) sched hs)
  have hb : Before sched m3 m4 :=
    merge_after_subtrees T3 (c := 4) (l := .node 3 (.leaf 0) (.leaf 1)) (r := .leaf 2) (.refl _) sched hs m3
      (Or.inl (by decide))
  have hlen : sched.length = 2 := hp.1.length_eq
  match sched, hlen, hb with
  | [x, y], _, hb =>
    have h1 : Before [x, y] m3 m4 := hb
    unfold Before at h1
    have := List.Sublist.eq_of_length h1 rfl
    exact this.symm

/-- three different schedules of the 5-leaf tree (2 threads can realise all of them) -/
theorem T5_sched_a : Lin (treeProg T5) [m5, m6, m7, m8] := tree_serial_is_schedule T5
theorem T5_sched_b : Lin (treeProg T5) [m6, m5, m7, m8] := by
  refine Lin.seq (l1 := [m6, m5, m7]) (l2 := [m8]) (Lin.par (l1 := [m5]) (l2 := [m6, m7]) ?_ ?_ ?_) .atom
  · exact Lin.seq (l1 := []) (l2 := [m5]) (Lin.par .skip .skip .nil) .atom
  · exact Lin.seq (l1 := [m6]) (l2 := [m7])
      (Lin.par (l1 := [m6]) (l2 := []) (Lin.seq (l1 := []) (l2 := [m6]) (Lin.par .skip .skip .nil) .atom) .skip (.left .nil)) .atom
  · exact .right (.left (.right .nil))
theorem T5_sched_c : Lin (treeProg T5) [m6, m7, m5, m8] := by
  refine Lin.seq (l1 := [m6, m7, m5]) (l2 := [m8]) (Lin.par (l1 := [m5]) (l2 := [m6, m7]) ?_ ?_ ?_) .atom
  · exact Lin.seq (l1 := []) (l2 := [m5]) (Lin.par .skip .skip .nil) .atom
  · exact Lin.seq (l1 := [m6]) (l2 := [m7])
      (Lin.par (l1 := [m6]) (l2 := []) (Lin.seq (l1 := []) (l2 := [m6]) (Lin.par .skip .skip .nil) .atom) .skip (.left .nil)) .atom
  · exact .right (.right (.left .nil))

/-- but not one in which the root merge overtakes a child -/
example : ¬ Lin (treeProg T5) [m5, m6, m8, m7] := by
  intro h
  have hb : Before [m5, m6, m8, m7] m7 m8 :=
    merge_after_subtrees T5 (c := 8) (l := .node 5 (.leaf 0) (.leaf 1))
      (r := .node 7 (.node 6 (.leaf 2) (.leaf 3)) (.leaf 4)) (.refl _) _ h m7 (Or.inr (by decide))
  exact before_asymm (l := [m5, m6, m8, m7]) (by decide) hb (show List.Sublist [m8, m7] [m5, m6, m8, m7] by decide)

/-- an order-sensitive executable semantics respecting the merge footprints: every owned location
receives the log `c :: a :: b :: (old profile[a] ++ old profile[b])` -/
def logSem : Sem MergeAtom KLoc (List Nat) :=
  Sem.ofKernel mergeRd mergeWr fun m s _ => m.c :: m.a :: m.b :: (s (.profile m.a) ++ s (.profile m.b))

theorem logSem_wf : logSem.WellFormed := Sem.ofKernel_wf _ _ _

example : logSem.fp = mergeFp := rfl

/-- hence (by the theorem) all three schedules agree on the whole state … -/
example (s : KLoc → List Nat) :
    exec logSem.act [m6, m7, m5, m8] s = exec logSem.act [m5, m6, m7, m8] s :=
  tree_runs_agree logSem.act logSem_wf T5 (by decide) _ _ T5_sched_c T5_sched_a s

/-- … and (by evaluation) on the root profile, whose value records the data flow of all four merges -/
example : exec logSem.act [m5, m6, m7, m8] (fun _ => []) (.profile 8) = [8, 5, 7, 5, 0, 1, 7, 6, 4, 6, 2, 3] := by decide
example : exec logSem.act [m6, m5, m7, m8] (fun _ => []) (.profile 8) = [8, 5, 7, 5, 0, 1, 7, 6, 4, 6, 2, 3] := by decide
example : exec logSem.act [m6, m7, m5, m8] (fun _ => []) (.profile 8) = [8, 5, 7, 5, 0, 1, 7, 6, 4, 6, 2, 3] := by decide
/-- the non-schedule gives something else: the ordering is what makes the result right -/
example : exec logSem.act [m5, m6, m8, m7] (fun _ => []) (.profile 8) = [8, 5, 7, 5, 0, 1] := by decide

/-- the distinct-ids hypothesis is not redundant: with a repeated internal id two merges that are
concurrent write the same `profile[]` slot and the two schedules differ -/
def Tbad : LTree := .node 9 (.node 5 (.leaf 0) (.leaf 1)) (.node 5 (.leaf 2) (.leaf 3))
def mb1 : MergeAtom := ⟨5, 0, 1, [0, 1]⟩
def mb2 : MergeAtom := ⟨5, 2, 3, [2, 3]⟩
def mb9 : MergeAtom := ⟨9, 5, 5, [0, 1, 2, 3]⟩
example : Tbad.serialMerges = [mb1, mb2, mb9] := by decide
example : ¬ Tbad.ids.Nodup := by decide
example : exec logSem.act [mb1, mb2, mb9] (fun _ => []) (.profile 9) ≠
          exec logSem.act [mb2, mb1, mb9] (fun _ => []) (.profile 9) := by decide

/-- Hirschberg step: an executable semantics and both schedules -/
def hLog : Sem HAtom HLoc (List Nat) :=
  Sem.ofKernel hirschRd hirschWr fun a s _ =>
    match a with
    | .fwd => 1 :: s .f
    | .bwd => 2 :: s .b
    | .meetup => 3 :: (s .f ++ s .b)
example : hLog.fp = hirschFp := rfl
example : Lin hirschProg [.bwd, .fwd, .meetup] :=
  Lin.seq (l1 := [HAtom.bwd, HAtom.fwd]) (l2 := [HAtom.meetup])
    (Lin.par (l1 := [HAtom.fwd]) (l2 := [HAtom.bwd]) .atom .atom (.right (.left .nil))) .atom
example : exec hLog.act [.bwd, .fwd, .meetup] (fun _ => [0]) .meet = [3, 1, 0, 2, 0] := by decide
example : exec hLog.act [.fwd, .bwd, .meetup] (fun _ => [0]) .meet = [3, 1, 0, 2, 0] := by decide

example : (distProg 2 2).atoms = [.cell 0 0, .cell 0 1, .cell 1 0, .cell 1 1] := by decide
example : Lin (distProg 2 2) [.cell 1 1, .cell 0 1, .cell 1 0, .cell 0 0] :=
  Lin.par (l1 := [.cell 0 1, .cell 0 0]) (l2 := [.cell 1 1, .cell 1 0])
    (Lin.par .atom .atom (.right (.left .nil))) (Lin.par .atom .atom (.right (.left .nil)))
    (.right (.left (.right (.left .nil))))

/-- the well-formedness hypotheses of the k-means / distance / recursion theorems are satisfiable for every
kernel: `Sem.ofKernel` produces a well-formed semantics with exactly the declared footprints -/
example (g : KmAtom → (KmLoc → Nat) → KmLoc → Nat) :
    (Sem.ofKernel kmRd kmWr g).fp = kmFp ∧ (Sem.ofKernel kmRd kmWr g).WellFormed := ⟨rfl, Sem.ofKernel_wf _ _ _⟩
example (g : DAtom → (DLoc → Nat) → DLoc → Nat) :
    (Sem.ofKernel dRd dWr g).fp = dFp ∧ (Sem.ofKernel dRd dWr g).WellFormed := ⟨rfl, Sem.ofKernel_wf _ _ _⟩
example (g : KRAtom → (KRLoc → Nat) → KRLoc → Nat) :
    (Sem.ofKernel krRd krWr0 g).fp = krFp0 ∧ (Sem.ofKernel krRd krWr0 g).WellFormed := ⟨rfl, Sem.ofKernel_wf _ _ _⟩

/-- k-means round: the reduction is order-sensitive (it keeps the *first* best), the splits are not -/
def kmLog : Sem KmAtom KmLoc (List Nat) :=
  Sem.ofKernel kmRd kmWr fun a s x =>
    match a with
    | .split k => [k]
    | .reduce => if x = .best then s (.res 0) ++ s (.res 1) ++ s (.res 2) ++ s (.res 3) else []
example : Lin kmeansRoundProg [.split 2, .split 0, .split 3, .split 1, .reduce] :=
  Lin.seq (l1 := [KmAtom.split 2, .split 0, .split 3, .split 1]) (l2 := [KmAtom.reduce])
    (Lin.par (l1 := [KmAtom.split 0]) (l2 := [KmAtom.split 2, .split 3, .split 1]) .atom
      (Lin.par (l1 := [KmAtom.split 1]) (l2 := [KmAtom.split 2, .split 3]) .atom
        (Lin.par (l1 := [KmAtom.split 2]) (l2 := [KmAtom.split 3]) .atom .atom (.left (.right .nil)))
        (.right (.right (.left .nil))))
      (.right (.left (.right (.right .nil))))) .atom
example : exec kmLog.act [.split 2, .split 0, .split 3, .split 1, .reduce] (fun _ => []) .best = [0, 1, 2, 3] := by decide
example : exec kmLog.act [.split 0, .split 1, .split 2, .split 3, .reduce] (fun _ => []) .best = [0, 1, 2, 3] := by decide

end Examples

end Kalign.C02
