import KalignModel.Lemmas.IndexKernel2
import KalignModel.Lemmas.IndexCtrl
import KalignModel.Lemmas.IndexProf
import KalignModel.Lemmas.IndexAlign
import KalignModel.Lemmas.IndexTasks
import KalignModel.Lemmas.IndexTree
import KalignModel.Lemmas.IndexKmeans
import KalignModel.Lemmas.IndexBpm
import KalignModel.Lemmas.IndexPipe
/-!
# C05 (slice AD) — the totalised array accesses of the DP model are never out of range

The executable model indexes its functional arrays with totalised accesses (`getD … default`, `set!`, `setIfInBounds`,
`[i]!`).  The no-fault theorems (Props/C05Pipeline*.lean) speak about the model's *explicit* fault values only: an index
outside an array at a totalised access would silently read the default (or drop the write) and they would not see it.

`Model/Checked.lean` has a **checked twin** of every such function (same code, every read through `get?`, every write
through the bounds-tested `asetC`, result in `Option`: `none` = the first index outside its array; for model functions
that already return `Option` the twin is in `Chk = OptionT Option`, outer layer = index fault, inner = the model's own
fault value).  The theorems below say: under the entry-point precondition **the twin returns `some` of exactly what the
totalised function returns** — no default is ever taken, no write is ever dropped.  All theorems hold for every score
carrier (`Float32`, the exact carrier, …) and whatever the score comparisons answer.

Form used: checked twin for every item (no index traces were needed).
-/
namespace Kalign

/-! ## preconditions at the entry points -/

/-- `aln_param_init` (`paramOfTable`) always builds a 23 × 23 substitution matrix -/
theorem C05_paramOfTable_wf (biotype : Nat) (type : Int) (gpo gpe tgpe : Float32) (ap : AlnParam Float32)
    (h : paramOfTable biotype type gpo gpe tgpe = some ap) : ap.wf :=
  Pipeline.paramOfTable_wf biotype type gpo gpe tgpe ap h

/-- `aln_param_init` reads the generated matrix it selects inside its 23 × 23 entries (`paramOfTable`: `rows.getD i []`,
`.getD j 0`), for every `(biotype, type)` and every penalty override -/
theorem C05_paramOfTable_indices_in_range (biotype : Nat) (type : Int) (gpo gpe tgpe : Float32) :
    (Pipeline.paramOfTableC biotype type gpo gpe tgpe).run = some (paramOfTable biotype type gpo gpe tgpe) :=
  Pipeline.paramOfTableC_eq biotype type gpo gpe tgpe

section
variable {β : Type} [Score β]

/-! ## 1. the nine kernels -/

/-- **item 1 (full)**: forward, backward and meetup of the three kernel families on a rectangle inside the operands
(`Rect.valid`), operands well-formed for `(lenA, lenB)` (`Operands.lens?`: residue codes `< 23`, profiles of
`64·(len+2)` entries), a 23 × 23 substitution matrix: every read of `seq1`, `seq2`, `prof1`, `prof2`, `subm` is in range
(the largest profile column touched is `len+1`).  For `meetup`: `mid ≤ lenA` and one of the two state lists no longer
than the rectangle is wide (the controller passes exactly `endb − startb + 1` cells). -/
theorem C05_kernel_indices_in_range (ap : AlnParam β) (hw : ap.wf) (ops : Operands β) (r : Rect) (lenA lenB : Nat)
    (hl : ops.lens? = some (lenA, lenB)) (hr : r.valid lenA lenB = true) :
    (∀ start, kForwardC ap ops r start = some (kForward ap ops r start)) ∧
    (∀ start, kBackwardC ap ops r start = some (kBackward ap ops r start)) ∧
    (∀ mid fs bs, mid ≤ lenA → fs.length ≤ r.endb - r.startb + 1 →
      kMeetupC ap ops r mid fs bs = some (kMeetup ap ops r mid fs bs)) :=
  ⟨kForwardC_eq ap hw ops r lenA lenB hl hr, kBackwardC_eq ap hw ops r lenA lenB hl hr,
    fun mid fs bs hm hf => kMeetupC_eq ap ops r lenA lenB mid hl hr hm fs bs hf⟩

/-! ## 2. the Hirschberg controllers -/

/-- **item 2 (full)**: a run of `aln_runner` / `aln_runner_serial` with the real kernels from any memory whose state
arrays have a slot 0: every `f[0]`/`b[0]` read (`getD 0`), every `f[0]`/`b[0]` write (`set0 = set! 0`), every `blit` write
and every kernel access is in range.  (The `path[mid]`, `path[mid+1]` writes already carry an explicit fault value:
`C05_controller_never_faults`.) -/
theorem C05_controller_indices_in_range (entry : Entry) (ap : AlnParam β) (hw : ap.wf) (ops : Operands β)
    (lenA lenB : Nat) (hl : ops.lens? = some (lenA, lenB)) (m : Mem (Array (States β)) β)
    (hf : 0 < m.f.size) (hb : 0 < m.b.size) :
    alnRunC entry ap ops lenA lenB m = some (alnRun entry ap ops lenA lenB m) :=
  alnRunC_eq entry ap hw ops lenA lenB hl m hf hb

/-- the memory `do_align` starts from (`init_alnmem`: the `set! 0` write is in range) and the read of `path[1..len_a]`
after the run (`Mem.pathEntries`, `getD (-1)`), for both entry points -/
theorem C05_initMem_path_indices_in_range (entry : Entry) (ap : AlnParam β) (ops : Operands β) (lenA lenB : Nat) :
    (initMemC lenA lenB : Option (Mem (Array (States β)) β)) = some (initMem lenA lenB) ∧
    (alnRun entry ap ops lenA lenB (initMem lenA lenB)).pathEntriesC lenA =
      some ((alnRun entry ap ops lenA lenB (initMem lenA lenB)).pathEntries lenA) :=
  ⟨initMemC_eq lenA lenB,
    pathEntriesC_eq _ lenA (by rw [alnRun_path_size, initMem_path_size]; omega)⟩

/-! ## 3. profiles -/

/-- **item 3 (full)**: `make_profile_n` (codes `< 23`), `set_gap_penalties_n` (any profile: column `c < size/64`),
`update_n` (any two profiles, any codes — the columns it works on come from the bounds-tested `colOf?`): all indices
inside the arrays. -/
theorem C05_profile_indices_in_range (ap : AlnParam β) :
    (ap.wf → ∀ seq : Array Nat, seq.all (· < 23) = true → makeProfileC ap seq = some (makeProfile ap seq)) ∧
    (∀ (prof : Array β) (nsip : Nat), setGapPenaltiesC prof nsip = some (setGapPenalties prof nsip)) ∧
    (∀ (pa pb : Array β) (codes : List Nat) (sa sb : Nat),
      (updateNC ap pa pb codes sa sb).run = some (updateN ap pa pb codes sa sb)) :=
  ⟨fun hw seq hs => makeProfileC_eq ap hw seq hs, setGapPenaltiesC_eq, updateNC_eq ap⟩

/-- the column helpers on a 64-entry column -/
theorem C05_column_indices_in_range (ap : AlnParam β) (x y : Array β) (hx : x.size = 64) (hy : y.size = 64) :
    addColsC x y = some (addCols x y) ∧
    (∀ gp, subRangeC x gp = some (subRange x gp)) ∧
    (∀ k s, k < 64 → bumpAtC x k s = some (bumpAt x k s)) ∧
    (∀ code sip, gapColC ap x code sip = some (gapCol ap x code sip)) ∧
    (ap.wf → ∀ c, c < 23 → residueColC ap c = some (residueCol ap c)) :=
  ⟨addColsC_eq x y hx hy, fun gp => subRangeC_eq x gp (by omega), fun k s hk => bumpAtC_eq x k s (by omega),
    fun code sip => gapColC_eq ap x code sip (by omega), fun hw c hc => residueColC_eq ap hw c hc⟩

/-! ## 4. `do_align` -/

/-- **item 4 (full)**: on a state whose vectors `profile`, `plen`, `nsip` all have one entry per node, every index of
`do_align` is in range — for *any* `(a, b, c)` (ids outside `nsip` are the model's explicit fault) — in particular the
five writes `profile[a]`, `profile[b]`, `profile[c]`, `plen[c]`, `nsip[c]` are never dropped; this includes the
operand preparation, the whole Hirschberg run, the path read and `update_n`. -/
theorem C05_doAlign_indices_in_range (entry : Entry) (ap : AlnParam β) (hw : ap.wf) (st : AlnState β) (hst : st.wf)
    (a b c : Nat) (isLast : Bool) :
    (doAlignC entry ap st a b c isLast).run = some (doAlign entry ap st a b c isLast) :=
  doAlignC_eq entry ap hw st hst a b c isLast

/-- `do_align` keeps the state well-sized, so the whole progressive alignment over the global state vectors of
`2·numseq − 1` entries (`AlnState.init`) stays in range, for any task table -/
theorem C05_alignTasks_indices_in_range (entry : Entry) (ap : AlnParam β) (hw : ap.wf) (seqs : Array (Array Nat))
    (tasks : List (Nat × Nat × Nat)) :
    (alignTasksC entry ap tasks (AlnState.init seqs)).run = some (alignTasks entry ap tasks (AlnState.init seqs)) :=
  alignTasksC_eq entry ap hw tasks _ (init_wf seqs)

end

/-- every index of a task table produced by `buildTasks` is a node id `< 2·numseq − 1` = the size of the state vectors of
`AlnState.init` (so the explicit index guard of `doAlign` never fires on it); the result is an internal node
(`numseq ≤ c`) and the two operands differ -/
theorem C05_task_indices_in_range (avx : Bool) (codes : Array (List Nat)) (tasks : Array (Nat × Nat × Nat))
    (h : Pipeline.buildTasks avx codes = .ok tasks) :
    ∀ t ∈ tasks.toList, t.1 ≠ t.2.1 ∧ t.1 < 2 * codes.size - 1 ∧ t.2.1 < 2 * codes.size - 1 ∧
      codes.size ≤ t.2.2 ∧ t.2.2 < 2 * codes.size - 1 :=
  Pipeline.buildTasks_indices avx codes tasks h

/-! ## 5. `upgma`, `distMatrix`, `smallTree`, `anchorMatrix` -/

/-- **item 5 (full)**: `upgma` for `n` samples and an `n × n` matrix (`FMat.get/set`, `act`, `tree`, the final
`tree[last]`); `distMatrix` (`seqs.getD (max x y)`); `smallTree` and `anchorMatrix` for samples / anchors that are sequence
indices (`codes.getD`). -/
theorem C05_upgma_indices_in_range :
    (∀ (dm : List (List Float32)) (samples : List Nat), dm.length = samples.length →
      (∀ row ∈ dm, row.length = samples.length) → (upgmaC dm samples).run = some (upgma dm samples)) ∧
    (∀ seqs : List (List Nat), (distMatrixC seqs).run = some (distMatrix seqs)) ∧
    (∀ (codes : Array (List Nat)) (samples : List Nat), (∀ s ∈ samples, s < codes.size) →
      (smallTreeC codes samples).run = some (Pipeline.smallTree codes samples)) ∧
    (∀ (codes : Array (List Nat)) (anchors : List Nat), (∀ a ∈ anchors, a < codes.size) →
      (anchorMatrixC codes anchors).run = some (Pipeline.anchorMatrix codes anchors)) :=
  ⟨upgmaC_eq, distMatrixC_eq, smallTreeC_eq, anchorMatrixC_eq⟩

/-! ## 6. the k-means lanes and `bpm_block` -/

/-- **item 6a (full)**: `split2` — every `[i]!` of `laneGo`, `serialGo`, `colSumGo`, `assignGo`, `centresMoved`,
`split2With` is in range, for every matrix, sample list, anchor count, seed and iteration cap (what is needed are the
model's own up-front checks: `rowsOf` = every sample indexes a row of at least the padded length `numVarOf na`, and
`seedPick < n`); the distance functions on two vectors of the padded length -/
theorem C05_kmeans_indices_in_range :
    (∀ (maxIter : Nat) (avx : Bool) (dm : Array (Array Float32)) (samples : List Nat) (na seedPick : Nat),
      (Kmeans.split2WithC maxIter avx dm samples na seedPick).run = some (Kmeans.split2With maxIter avx dm samples na seedPick)) ∧
    (∀ (avx : Bool) (a b : Array Float32) (len : Nat), Kmeans.numVarOf len ≤ a.size → Kmeans.numVarOf len ≤ b.size →
      Kmeans.edistC avx a b len = some (Kmeans.edist avx a b len)) :=
  ⟨Kmeans.split2WithC_eq, fun avx a b len ha hb =>
    Kmeans.edistC_eq avx a b len (by rw [← Kmeans.numVarOf_eq]; exact ha) (by rw [← Kmeans.numVarOf_eq]; exact hb)⟩

/-- **item 6b (full)**: `bpm_block` for every text and every pattern (any length; `m = min(len, 1024)`): the pattern reads,
the `Peq[c][b]` lookups, every `score[y]` read (`blkScore`) and the `bs.set (y+1)` write; and the distance entry built on it -/
theorem C05_bpmBlock_indices_in_range (t p : List Nat) :
    (bpmBlockC t p).run = some (bpmBlock t p) ∧ (distEntryC t p).run = some (distEntry t p) :=
  ⟨bpmBlockC_eq t p, distEntryC_eq t p⟩

/-! ## everything composed -/

/-- **the whole DP pipeline, no precondition left**: `core` = everything `kalign_run` does between the two alphabet
conversions and `finalise_alignment` (anchors, anchor matrix, bisecting k-means with its `upgma` leaves, task table,
`aln_param_init`, `recursive_aln` with `do_align` on every node).  For *all* inputs and parameters the checked twin
returns `some` of the model's result: every precondition used above is established by the pipeline itself
(`pickAnchors` returns sequence indices, the k-means splits are sub-lists of `0 … n−1`, `distMatrix` is square,
`paramOfTable` is 23 × 23, the operands `do_align` prepares are well-formed, its state vectors are well-sized). -/
theorem C05_pipeline_indices_in_range (avx : Bool) (bio : Bio) (c1 c2 : List (List Nat)) (type : Int)
    (gpo gpe tgpe : Float32) :
    Pipeline.coreC avx bio c1 c2 type gpo gpe tgpe = some (Pipeline.core avx bio c1 c2 type gpo gpe tgpe) :=
  Pipeline.coreC_eq avx bio c1 c2 type gpo gpe tgpe

/-- **`mirror_path_n` (partial)**: the model's `mirrorPath` writes with `List.set`, which drops a write outside the list.
The write index is `p − 1` for a path entry `p > 0` of the (swapped) Hirschberg run; it is inside the list when `p ≤ lb`.
Missing fact = `hmon`, the meetup contract on the serial run (the same hypothesis as `C05_doAlign_no_fault_partial`; a
statement about score values).  Full statement: the same without `hmon` for the carriers kalign uses.  Without the monitor an
entry `meet + 1 = lb + 1` is conceivable in the model (the write would be dropped in the model; the C code would write
`opath[len_a+1]`, still inside the `len_a+2` entries it has just initialised, an entry that is never read).
The twins `doAlignC`/`coreC` keep `mirrorPath`: this is the only totalised access of the DP pipeline they do not check. -/
theorem C05_mirrorPath_indices_in_range_partial {β : Type} [Score β] (entry : Entry) (ap : AlnParam β) (ops : Operands β)
    (la lb : Nat) (h1 : 1 ≤ la) (h2 : 1 ≤ lb) (hmon : (alnRun .serial ap ops la lb (initMem la lb)).mon = true) :
    Pipeline.mirrorPathC lb ((alnRun entry ap ops la lb (initMem la lb)).pathEntries la) =
      some (mirrorPath lb ((alnRun entry ap ops la lb (initMem la lb)).pathEntries la)) :=
  Pipeline.mirrorPathC_run entry ap ops la lb h1 h2 hmon

/-- the same for any path whose entries are at most the length of the mirrored list -/
theorem C05_mirrorPath_bounded (lenA : Nat) (apath : List Int) (h : ∀ p ∈ apath, p ≤ lenA) :
    Pipeline.mirrorPathC lenA apath = some (mirrorPath lenA apath) :=
  Pipeline.mirrorPathC_eq lenA apath h

end Kalign
