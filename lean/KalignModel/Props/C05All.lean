import KalignModel.Props.C05
import KalignModel.Props.C05Pipeline
import KalignModel.Props.SoftFloat
import KalignModel.Props.C05PipelineSoft
import KalignModel.Props.C05PipelineSoftL
/-! aggregator: the reader/table/path theorems of C05, the pipeline no-fault theorems, the software binary32 and the monitor theorems on
it, audited together by tools/props/c05.py -/
