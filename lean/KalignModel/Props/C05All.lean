import KalignModel.Props.C05
import KalignModel.Props.C05Pipeline
/-! aggregator: the reader/table/path theorems of C05 and the pipeline no-fault theorems, audited together by tools/props/c05.py -/
