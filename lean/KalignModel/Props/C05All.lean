import KalignModel.Props.C05
import KalignModel.Props.C05Pipeline
import KalignModel.Props.SoftFloat
import KalignModel.Props.C05PipelineSoft
import KalignModel.Props.C05PipelineSoftL
import KalignModel.Props.C05PipelineSoftFinal
import KalignModel.Props.C05PipelineSoft2
import KalignModel.Props.C05PipelineSoft2Ex
import KalignModel.Props.C05WholeProgram
import KalignModel.Props.C05WholeProgramEx
/-! aggregator: the reader/table/path theorems of C05, the pipeline no-fault theorems, the software binary32 and the monitor theorems on
it, the unconditional no-fault theorems of the SoftF32 pipeline, audited together by tools/props/c05.py -/
