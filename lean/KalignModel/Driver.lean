import KalignModel.Driver.Util
import KalignModel.Driver.Weave
import KalignModel.Driver.Param
import KalignModel.Driver.Dp
import KalignModel.Driver.Io
import KalignModel.Driver.Misc
import KalignModel.Driver.Bpm
import KalignModel.Driver.Kmeans
import KalignModel.Driver.Pipeline
import KalignModel.Driver.PipelineFile
import KalignModel.Driver.Cli
import KalignModel.Driver.F32
import KalignModel.Driver.TreeSoft
import KalignModel.Driver.PipelineFileSoft
/-!
Line-protocol driver: one operation per input line, one result line per operation.
Only executable model definitions are imported here (no `Props`, no Mathlib), so a failing proof
never prevents the model from running.  Each slice of the model contributes an `OpTable`.
-/
namespace Kalign.Driver

def tables : OpTable := weaveOps ++ paramOps ++ dpOps ++ ioOps ++ miscOps ++ bpmOps ++ kmeansOps ++ pipelineOps ++ pipeFileOps ++ cliOps ++ f32Ops ++ treeSoftOps ++ pipeFileSoftOps

def step (line : String) : String :=
  match (line.trimAscii.toString.splitOn " ").filter (· ≠ "") with
  | [] => "bad-op"
  | op :: args =>
    match tables.lookup op with
    | some f => f args
    | none => "bad-op"

end Kalign.Driver
