import KalignModel.Model.Weave
import KalignModel.Model.Path
/-!
Line-protocol driver: one operation per input line, one result line per operation.
Only executable model definitions are imported here (no `Props`, no Mathlib), so a failing proof
never prevents the model from running.
-/
namespace Kalign.Driver
open Kalign

def parseNat? (s : String) : Option Nat := s.toNat?
def parseInt? (s : String) : Option Int := s.toInt?

def parseNats (s : String) : Option (List Nat) :=
  if s == "-" then some [] else (s.splitOn ",").mapM parseNat?
def parseInts (s : String) : Option (List Int) :=
  if s == "-" then some [] else (s.splitOn ",").mapM parseInt?

def showList {β} [ToString β] (l : List β) : String :=
  if l.isEmpty then "-" else ",".intercalate (l.map toString)

def parseRes (s : String) : List Char := if s == "." then [] else s.toList

def showRow (r : List (Option Char)) : String :=
  let s := String.ofList (r.map fun | some c => c | none => '-')
  if s.isEmpty then "." else s

def opUpdateGaps : List String → String
  | [g, ng] => match parseNats g, parseNats ng with
    | some g, some ng => showList (updateGaps g ng)
    | _, _ => "bad-op"
  | _ => "bad-op"

/-- `make_seq codes na nb g_1 .. g_na h_1 .. h_nb` -> new gap vectors in `sip[c]` order -/
def opMakeSeq : List String → String
  | codes :: na :: nb :: rest =>
    match parseNats codes, parseNat? na, parseNat? nb, rest.mapM parseNats with
    | some codes, some na, some nb, some gs =>
      if gs.length ≠ na + nb then "bad-op" else
      let mk := fun (g : List Nat) => ({ res := ([] : List Char), gaps := g } : GSeq Char)
      let A := (gs.take na).map mk
      let B := (gs.drop na).map mk
      " ".intercalate ((mergeStep codes A B).map fun s => showList s.gaps)
    | _, _, _, _ => "bad-op"
  | _ => "bad-op"

def opExpand : List String → String
  | [lenB, path] => match parseNat? lenB, parseInts path with
    | some lenB, some path => match expandPath lenB path with
      | some cs => showList cs
      | none => "fault"
    | _, _ => "bad-op"
  | _ => "bad-op"

def opMirror : List String → String
  | [lenA, path] => match parseNat? lenA, parseInts path with
    | some lenA, some path => showList (mirrorPath lenA path)
    | _, _ => "bad-op"
  | _ => "bad-op"

def opMakeLinear : List String → String
  | [res, gaps] => match parseNats gaps with
    | some g => showRow (makeLinear (parseRes res) g)
    | none => "bad-op"
  | _ => "bad-op"

def step (line : String) : String :=
  match (line.trimAscii.toString.splitOn " ").filter (· ≠ "") with
  | [] => "bad-op"
  | op :: args =>
    match op with
    | "update_gaps" => opUpdateGaps args
    | "make_seq" => opMakeSeq args
    | "add_gap_info" => opExpand args
    | "mirror_path" => opMirror args
    | "make_linear" => opMakeLinear args
    | _ => "bad-op"

end Kalign.Driver
