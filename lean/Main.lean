import KalignModel.Driver

partial def loop (h : IO.FS.Stream) (out : IO.FS.Stream) : IO Unit := do
  let line ← h.getLine
  if line.isEmpty then return ()
  out.putStrLn (Kalign.Driver.step line)
  loop h out

def main : IO Unit := do
  let out ← IO.getStdout
  loop (← IO.getStdin) out
  out.flush
