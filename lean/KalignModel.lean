import KalignModel.Model.Weave
import KalignModel.Model.Path
